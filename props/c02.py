# -*- coding: utf-8 -*-
"""C02 - each injected argument comes from its one declared source.

Same configuration space as C01 (accepted configurations only).  Every value
that can be injected is a distinct sentinel; the recorded arguments of every
function of the chain are compared by identity with the unique source
ref/bind.py computes.  In addition the source text of every generated chain
is parsed and checked structurally (all-requests argument), and a fixed
sub-sample of configurations is evaluated by every worker under a different
PYTHONHASHSEED with the recorded traces compared across workers.
"""
import ast
import hashlib
import linecache
import os
import time

from mc import common, chain
from props import c01
from ref import bind as B

ID = 'C02'
LEVEL = 'model_checking'
BUDGET = {'quick': 420, 'thorough': 3300}
RULE = ('accepted configurations of the C01 layers x one request per route kind; every (function, parameter) pair of '
        'every executed function is compared with its source sentinel; non-trivial = at least one parameter is wired '
        'to a non-builtin source; distinct = distinct (layer, source kinds used) classes')
ASSUMPTIONS = ['ref/bind.py computes the unique source of every parameter',
               'sentinel identity (is) for resources/provided values/defaults, equality for converted URL segments',
               'generated chain source is read back from linecache (what clastic itself registers there)']


def deadline_passed():
    d = os.environ.get('VERIF_DEADLINE')
    return bool(d) and time.time() > float(d)


def generated_sources(route):
    """All '<sinter generated ...>' sources reachable from a bound route's compiled chain."""
    out = {}
    seen = set()

    def walk(fn):
        code = getattr(fn, '__code__', None)
        if code is None or id(fn) in seen:
            return
        seen.add(id(fn))
        if code.co_filename.startswith('<sinter generated'):
            entry = linecache.cache.get(code.co_filename)
            if entry:
                out[code.co_filename] = ''.join(entry[2])
            # whatever the generated function's private namespace refers to: functions and lists of functions
            for v in list(fn.__globals__.values()):
                if isinstance(v, (list, tuple)):
                    for f in v:
                        walk(f)
                else:
                    walk(v)
    walk(route._execute)
    return out


def check_generated_structure(src):
    """Every call in generated code passes keyword p bound to the variable p (never a positional or a
    differently named value), and nested `next` definitions are plain positional parameter lists."""
    problems = []
    tree = ast.parse(src)
    for node in ast.walk(tree):
        if isinstance(node, ast.Call):
            # every call the generated code makes (whatever it calls its private references to the chain functions)
            # (positional arguments cannot be judged structurally; the identity comparison of the
            # recorded arguments covers them)
            for kw in node.keywords:
                if kw.arg is None or not isinstance(kw.value, ast.Name) or kw.value.id != kw.arg:
                    problems.append('keyword %r bound to %s' % (kw.arg, ast.dump(kw.value)))
        if isinstance(node, ast.FunctionDef):
            a = node.args
            if a.defaults or a.kw_defaults or a.vararg or a.kwarg:
                problems.append('generated def %s has defaults/varargs' % node.name)
    return problems


def allowed_decoy_names(cfg):
    out = []
    for n in ('a', 'b'):
        if n in cfg.get('app_res', []) or n in cfg.get('url', []):
            continue
        if any(m['level'] != 'route' and n in m.get(at, []) for m in cfg['mws'] for at in B.PROVIDES_ATTR.values()):
            continue
        out.append(n)
    return out


def check_decoys(acc, h, cfg, layer, info):
    """Same configuration, but the real route is preceded by routes that match the same path, bind the
    injectable names from the URL and are skipped: nothing of them may leak into the real route's arguments."""
    names = allowed_decoy_names(cfg)
    if not names:
        return
    for kind in ('method', 'nb'):
        decoys = [(kind, n) for n in names]
        try:
            app = h.build(cfg, error_handler=c01.reraiser(), decoys=decoys)
        except Exception:
            acc.add('decoy_unbuildable')
            continue
        acc.evaluated += 1
        res, trace = chain.run_request(h, h.path, 'GET')
        acc.transitions += 1
        case = {'cfg': cfg, 'layer': layer, 'decoys': decoys}
        if res.raised is not None:
            acc.violation('C02:decoy-request-raised:%s' % type(res.raised).__name__,
                          'request raised %r with skipped routes %r in front' % (res.raised, decoys), case)
            continue
        # the skipped routes run the application-level middlewares themselves: only what happens after
        # the last of them belongs to the real route
        last = max([k for k, ev in enumerate(trace) if ev[0] == 'decoy-executed'] or [-1])
        if kind == 'nb' and last < 0:
            raise common.InternalError('decoy route did not execute')
        trace = trace[last + 1:]
        bad, seen = chain.verify_wiring(h, info['wiring']['route'], trace, app)
        if 'ep' not in seen:
            bad.append(('not-called', 'endpoint of the real route was not called'))
        acc.validated += sum(len(ev[2]) for ev in trace if ev[0] == 'enter')
        acc.outcome('%s:decoy-%s' % (layer, kind))
        for k, msg in bad:
            acc.violation('C02:%s:after-skipped-route-%s' % (k, kind),
                          '%s (the request first matched and skipped %r)' % (msg, decoys), case)


def check_config(acc, h, cfg, layer, digest=None, with_decoys=False):
    info = B.analyse_all(cfg)
    if info['verdict'] == 'reject':
        return
    if with_decoys:
        check_decoys(acc, h, cfg, layer, info)
        return
    try:
        app = h.build(cfg, error_handler=c01.reraiser())
    except Exception:
        return    # accept/reject disagreements are C01's business
    acc.evaluated += 1
    case = {'cfg': cfg, 'layer': layer}
    # structural all-requests check of the generated code
    for rt in list(app.routes) + [app._null_route]:
        for fname, src in generated_sources(rt).items():
            acc.add('generated_sources')
            for p in check_generated_structure(src):
                acc.violation('C02:generated-structure:%s' % p.split(' ')[0], '%s in %s:\n%s' % (p, fname, src), case)
    used = set()
    reqs = [('route', h.path, 'GET', {}), ('null', '/zz/zz', 'GET', {}), ('null', h.path, 'POST', {})]
    if cfg.get('url') and not cfg.get('url_optional'):
        # repeated slashes in front of every segment (tolerated in redirect mode): same values
        reqs.append(('route', h.path.replace('/', '//')[1:], 'GET', {}))
    if h.path_absent:
        reqs.append(('route', h.path_absent, 'GET', dict((n, None) for n in cfg['url'])))
    if cfg.get('url') and not cfg.get('url_optional'):
        # segments that still contain a percent escape after the server's decoding (the client sent %2541): the
        # value is that text, not its second decoding
        reqs.append(('route', h.path.replace('u_', 'u%41_'), 'GET', dict((n, 'u%41_' + n) for n in cfg['url'])))
    for what, path, method, url_values in reqs:
        h.url_values = url_values
        res, trace = chain.run_request(h, path, method)
        acc.transitions += 1
        if res.raised is not None:
            acc.violation('C02:request-raised:%s:%s' % (what, type(res.raised).__name__),
                          'request %s %s raised %r' % (method, path, res.raised), dict(case, request=[path, method]))
            return
        wiring = info['wiring'][what]
        bad, seen = chain.verify_wiring(h, wiring, trace, app)
        nparams = sum(len(ev[2]) for ev in trace if ev[0] == 'enter')
        acc.validated += nparams
        for ev in trace:
            if ev[0] == 'enter':
                for name in ev[2]:
                    src = wiring.get(ev[1], {}).get(name)
                    if src:
                        used.add(src[0])
        if what == 'route':
            expect_fids = set(wiring)
            if cfg.get('render') and 'rn' in expect_fids and 'rn' not in seen:
                bad.append(('not-called', 'render function was not called'))
            if 'ep' not in seen:
                bad.append(('not-called', 'endpoint was not called'))
        for kind, msg in bad:
            roles = c01.special_roles(cfg)
            acc.violation('C02:%s:%s:%s' % (kind, what, roles), '%s (request %s %s)' % (msg, method, path),
                          dict(case, request=[path, method]))
        if digest is not None:
            digest.update(repr([(ev[0], ev[1], sorted((k, repr(v) if not hasattr(v, 'environ') and not callable(v)
                                                          and type(v).__module__ != 'clastic.application'
                                                          and type(v).__module__ != 'clastic.route' else type(v).__name__)
                                                         for k, v in ev[2].items()) if ev[0] == 'enter' else ev[2:])
                                for ev in trace]).encode('utf8'))
    if used - set(['builtin', 'next']):
        acc.add('nontrivial')
    acc.outcome('%s:%s' % (layer, '+'.join(sorted(used)) or 'noparams'))
    check_rebound(acc, h, cfg, layer)


def check_context_processor(acc):
    """The bundled ContextProcessor takes injectables too: one instance shared by routes that offer different sources
    for its defaulted name must hand each route's own value (URL binding / route resource / its default) to the
    context, whatever was served before."""
    import itertools
    from clastic import Application, Route
    from clastic.middleware import ContextProcessor, SimpleContextProcessor
    from werkzeug.wrappers import Response
    from mc import wsgi
    DEF, RES = chain.Tok('cp-default'), chain.Tok('cp-route-resource')
    for kind in ('ContextProcessor', 'SimpleContextProcessor', 'overwrite'):
        reqs = [('/with/u1', 'u1'), ('/with/u2', 'u2'), ('/res', RES), ('/without', DEF if kind != 'SimpleContextProcessor' else None),
                ('/opt', None)]      # /opt/<lang?> without the segment: the binding offers None, which is then the value
        for seq in itertools.permutations(reqs, 3):
            seen = []
            if kind == 'SimpleContextProcessor':
                cp = SimpleContextProcessor('lang')
            else:
                cp = ContextProcessor(defaults={'lang': DEF}, overwrite=(kind == 'overwrite'))

            def ep():
                return {'own': 1}

            def render(context):
                seen.append(context.get('lang', 'ABSENT'))
                return Response('ok')
            app = Application([Route('/with/<lang>', ep, render), Route('/opt/<lang?>', ep, render),
                               Route('/res', ep, render, resources={'lang': RES}),
                               Route('/without', ep, render)], middlewares=[cp])
            for j, (path, want) in enumerate(seq * 2):
                del seen[:]
                res = wsgi.call(app, path)
                acc.evaluated += 1
                acc.transitions += 1
                acc.validated += 1
                acc.add('nontrivial')
                acc.outcome('CP:%s' % kind)
                got = seen[0] if seen else 'NOT-RENDERED'
                if res.raised is not None or res.code != 200 or got is not want and got != want:
                    acc.violation('C02:context-processor:%s' % kind, '%s put lang=%r into the context of %s, its source there is %r '
                                  '(requests before: %r; %s %r)' % (kind, got, path, want, [p for p, _ in (seq * 2)[:j]], res.status, res.raised),
                                  {'cp': kind, 'layer': 'CP'})
                    break


def check_rebound(acc, h, cfg, layer):
    """History: the same Route / embedded application object is bound a second time, into an application that lacks
    the first one's resources.  Nothing of the first binding may reach the functions of the second."""
    import copy
    key = 'outer_res' if h.has_outer else 'app_res'
    if not cfg.get(key):
        return
    cfg2 = copy.deepcopy(cfg)
    cfg2[key] = []
    info2 = B.analyse_all(cfg2)
    case = {'cfg': cfg, 'layer': layer, 'rebound': True}
    try:
        _, app2 = h.rebind_poorer(cfg, error_handler=c01.reraiser())
        built = None
    except Exception as e:
        built = e
    acc.transitions += 1
    acc.add('rebound')
    if info2['verdict'] == 'reject':
        if built is None:
            acc.violation('C02:rebound:accepted-unsatisfiable', 'bound a second time, into an application without the '
                          'resources %r, the route was accepted although %s' % (cfg[key], info2.get('why')), case)
        return
    if built is not None:
        return      # C01's business
    res, trace = chain.run_request(h, h.path, 'GET')
    acc.transitions += 1
    if res.raised is not None:
        acc.violation('C02:rebound:request-raised:%s' % type(res.raised).__name__,
                      'request to the second application raised %r' % (res.raised,), case)
        return
    bad, seen = chain.verify_wiring(h, info2['wiring']['route'], trace, app2)
    acc.validated += sum(len(ev[2]) for ev in trace if ev[0] == 'enter')
    for kind, msg in bad:
        acc.violation('C02:rebound:%s' % kind, '%s (second binding of the same route object, without resources %r)'
                      % (msg, cfg[key]), case)


DECOY_LAYERS = ('L1a-1', 'L2-1', 'LB')

# names a developer might well give a resource, and which generated or framework code might use for itself
COLLIDERS = ['response', 'resp', 'ret', 'result', 'res', 'ctx', 'inner', 'func', 'funcs', 'args', 'kwargs', 'route', 'app',
             'application', 'error', 'exc', 'e', 'params', 'path', 'method', 'url', 'data', 'endpoint', 'render', 'req',
             'start_response', 'environ', 'middleware', 'mw', 'f', 'fn', 'name', 'value', 'BaseResponse', 'isinstance',
             'process_request', 'Response', 'len', 'dict', 'list', 'type', 'id', 'object', 'input', 'format', 'filter']


def harvest_names(h):
    """Every identifier that occurs in the code clastic generates for a representative route, plus the names in the
    generated functions' global namespaces, plus COLLIDERS: candidates for an accidental capture of an injectable."""
    import ast
    import keyword
    probe = {'mws': [{'level': 'app', 'type': 'T0', 'request': {'params': []}, 'endpoint': {'params': []},
                      'render': {'params': []}},
                     {'level': 'route', 'type': 'T1', 'request': {'params': []}, 'endpoint': {'params': []},
                      'render': {'params': []}}],
             'endpoint': {'params': []}, 'render': {'params': [['context', 'req']]}, 'url': ['a'], 'app_res': [],
             'route_res': []}
    app = h.build(probe)
    names = set(COLLIDERS)
    seen_fns = set()

    def walk_globals(fn):
        code = getattr(fn, '__code__', None)
        if code is None or id(fn) in seen_fns or not code.co_filename.startswith('<sinter generated'):
            return
        seen_fns.add(id(fn))
        names.update(k for k in fn.__globals__ if isinstance(k, str))
        for v in list(fn.__globals__.values()):
            for f in (v if isinstance(v, (list, tuple)) else (v,)):
                walk_globals(f)
    for rt in list(app.routes) + [app._null_route]:
        walk_globals(rt._execute)
        for src in generated_sources(rt).values():
            for node in ast.walk(ast.parse(src)):
                if isinstance(node, ast.Name):
                    names.add(node.id)
                elif isinstance(node, ast.arg):
                    names.add(node.arg)
                elif isinstance(node, ast.FunctionDef):
                    names.add(node.name)
    ok = []
    for nm in sorted(names):
        if nm in B.RESERVED or keyword.iskeyword(nm) or nm.startswith('__') or not nm.isidentifier():
            continue
        if nm in ('self', 'cls', 'True', 'False', 'None', '_H', '_D'):
            continue
        ok.append(nm)
    return ok


def gen_LG(names):
    consumers = ['ep', 'rn', 'm1.request', 'm1.endpoint', 'm1.render']
    for nm in names:
        for src in (('app_res',), ('route_res',), ('mw', 0, 'request'), ('url',)):
            for consumer in consumers:
                cfg = c01.empty_cfg()
                m0 = {'level': 'app', 'type': 'T0', 'request': c01.fspec([])}
                m1 = {'level': 'route', 'type': 'T1'}
                if consumer.startswith('m1.'):
                    m1[consumer[3:]] = c01.fspec([(nm, 'req')])
                else:
                    m1['request'] = c01.fspec([])
                cfg['mws'] = [m0, m1]
                cfg['endpoint'] = c01.fspec([(nm, 'req')] if consumer == 'ep' else [])
                cfg['render'] = c01.fspec([(nm, 'req')] if consumer == 'rn' else [], [('context', 'req')])
                if src[0] == 'mw':
                    m0['provides'] = [nm]
                elif src[0] == 'url':
                    cfg['url'] = [nm]
                else:
                    cfg[src[0]] = [nm]
                yield cfg


def nshards(tier):
    return 32 if tier == 'quick' else 64


def shard(tier, i, n, seed):
    common.setup_repo()
    acc = common.Acc()
    h = chain.Harness()
    digest = hashlib.sha1()
    k = 0
    ncommon = 0
    for name, gen in c01.layers(tier):
        for cfg in gen():
            k += 1
            common_case = (k % 2503 == 0)
            if k % n != i and not common_case:
                continue
            if k % 256 == i and deadline_passed():
                acc.extra['cap_hit'] = 1
                return acc
            if common_case:
                # evaluated by every worker (each under its own PYTHONHASHSEED); traces must agree
                sub = common.Acc()
                check_config(sub, h, cfg, name, digest)
                ncommon += 1
                if k % n != i:
                    continue
            check_config(acc, h, cfg, name)
            if name in DECOY_LAYERS:
                check_config(acc, h, cfg, name, with_decoys=True)
            if k % 20011 == i:
                acc.sample({'layer': name, 'cfg': cfg})
    # layer LG: injectables named like identifiers of the generated code
    names = harvest_names(h)
    acc.extra['harvested_names'] = [len(names)]
    if len(names) < len(COLLIDERS):
        raise common.InternalError('identifier harvest found only %d names' % len(names))
    for j, cfg in enumerate(gen_LG(names)):
        if j % n != i:
            continue
        before = acc.evaluated
        check_config(acc, h, cfg, 'LG')
        if acc.evaluated == before:
            # not even constructed: a plain resource / URL / provided name was refused
            try:
                h.build(cfg, error_handler=c01.reraiser())
            except Exception as e:
                acc.violation('C02:LG:name-refused:%s' % type(e).__name__, 'an injectable named like %r was refused: %r'
                              % (cfg, e), {'cfg': cfg, 'layer': 'LG'})
    if i == 2 % n:
        check_context_processor(acc)
    if i == 6 % n:
        c01.check_bundled_providers(acc, 'C02')
    if i == 7 % n:
        check_url_values(acc)
    acc.extra['hashseed_digest'] = [digest.hexdigest()]
    acc.extra['hashseed_common_cases'] = [ncommon]
    return acc


def finish(tier, merged, results):
    digs = set(merged['extra'].get('hashseed_digest', []))
    if not merged['extra'].get('cap_hit') and len(digs) != 1:
        raise common.InternalError('traces of the common sub-sample differ between workers with different '
                                   'PYTHONHASHSEED: %r' % sorted(digs))
    if not merged['violations'] and merged['extra'].get('nontrivial', 0) < 1000:
        raise common.InternalError('vacuous: too few wired parameters')
    return {'bounds': {'layers': [name for name, _ in c01.layers(tier)]},
            'distinct_nontrivial': merged['extra'].get('nontrivial', 0),
            'coverage': {'generated_sources_checked': merged['extra'].get('generated_sources', 0),
                         'hashseed_common_cases_per_worker': (merged['extra'].get('hashseed_common_cases') or [0])[0],
                         'hashseed_digests': sorted(digs),
                         'note': 'states = accepted configurations; traces_validated = (function, parameter) pairs compared'}}


def check_url_values(acc):
    """URL bindings of every arity, consumed by a middleware or by the endpoint, which keeps (and scribbles on) what it
    was given: over every history of three requests each consumer receives exactly the segments of its own request -
    through the plain WSGI environ and through the development server's parsing of the request line."""
    import itertools
    from clastic import Application, Middleware, Route
    from werkzeug.wrappers import Response
    from mc import wsgi
    patterns = [('/docs/<v*>', '/docs', lambda segs: list(segs)), ('/d2/<v*>/end', '/d2', lambda segs: list(segs)),
                ('/n/<v*int>', '/n', lambda segs: [int(x) for x in segs]), ('/o/<v?>/end', '/o', lambda segs: segs[0] if segs else None),
                ('/p/<v+>', '/p', lambda segs: list(segs))]
    choices = {'/docs': [[], ['a'], ['a', 'b;v=2']], '/d2': [[], ['a'], ['a', 'b']], '/n': [[], ['1'], ['1', '22']],
               '/o': [[], ['x;y=1']], '/p': [['a'], ['a', 'b'], ['report;v=2']]}
    for (pattern, base, conv), consumer, seam in itertools.product(patterns, ('endpoint', 'middleware'), ('wsgi', 'dev-server')):
        tail = '/end' if pattern.endswith('/end') else ''
        for hist in itertools.product(choices[base], repeat=3):
            got = []

            def keep(v):
                got.append(list(v) if isinstance(v, list) else v)
                if isinstance(v, list):
                    v.append('scribbled-by-an-earlier-request')

            class Mw(Middleware):
                def request(self, next, v):
                    keep(v)
                    return next()

            def ep_v(v):
                keep(v)
                return Response('ok')
            app = Application([Route(pattern, ep_v)]) if consumer == 'endpoint' else \
                Application([Route(pattern, lambda: Response('ok'), middlewares=[Mw()])])
            for j, segs in enumerate(hist):
                path = base + ''.join('/' + x for x in segs) + tail
                del got[:]
                if seam == 'dev-server':
                    res = wsgi.call(app, None, environ=wsgi.dev_server_environ(path, 'GET', safe='/+;='))
                else:
                    res = wsgi.call(app, path, 'GET')
                acc.transitions += 1
                acc.validated += 1
                case = {'layer': 'URLV', 'pattern': pattern, 'consumer': consumer, 'seam': seam, 'history': [list(x) for x in hist[:j + 1]]}
                if res.raised is not None or res.code != 200 or got != [conv(segs)]:
                    acc.violation('C02:url-value:%s:%s' % (seam, 'multi' if ('*' in pattern or '+' in pattern) else 'single'),
                                  '%s of %s, request %d of the history (%s, %s): received %r, the path says %r (%s %r)'
                                  % (consumer, pattern, j + 1, path, seam, got, conv(segs), res.status, res.raised), case)
                    break
    acc.outcome('URLV:url')


def replay_rebound(case):
    common.setup_repo()
    acc = common.Acc()
    h = chain.Harness()
    h.build(case['cfg'], error_handler=c01.reraiser())
    check_rebound(acc, h, case['cfg'], case.get('layer', 'replay'))
    if acc.violations:
        return False, acc.violations[0]['desc']
    return True, 'ok'


def replay(case):
    if case.get('layer') == 'bundled-providers':
        common.setup_repo()
        acc = common.Acc()
        c01.check_bundled_providers(acc, 'C02')
        return (False, acc.violations[0]['desc']) if acc.violations else (True, 'ok')
    if case.get('layer') == 'URLV':
        common.setup_repo()
        acc = common.Acc()
        check_url_values(acc)
        return (False, acc.violations[0]['desc']) if acc.violations else (True, 'ok')
    if case.get('layer') == 'CP':
        common.setup_repo()
        acc = common.Acc()
        check_context_processor(acc)
        return (False, acc.violations[0]['desc']) if acc.violations else (True, 'ok')
    if case.get('rebound'):
        return replay_rebound(case)
    common.setup_repo()
    acc = common.Acc()
    h = chain.Harness()
    if case.get('decoys'):
        check_config(acc, h, case['cfg'], case.get('layer', 'replay'), with_decoys=True)
    else:
        check_config(acc, h, case['cfg'], case.get('layer', 'replay'))
    if acc.violations:
        return False, acc.violations[0]['desc']
    return True, 'ok'
