# -*- coding: utf-8 -*-
"""C18 - the meta application never reveals secrets and always renders.

Complete product of host applications (resource-name subsets x value kinds,
route kinds, middleware sets, mount points incl. two levels of embedding) x
views (HTML, JSON).  Every page must be a 200, must not contain the sentinel
of any resource whose name contains 'secret' nor the cookie signing key (in
raw / escaped / repr forms), must list those resources with the redaction
marker and show the others; with one section made to fail (E4: each
peripheral's get_context / render raising each of a list of exception types,
and resources whose repr raises) the page is still a 200 that reports the
failure inline.
"""
import itertools
import json
import os
import time

from mc import common, wsgi

ID = 'C18'
LEVEL = 'model_checking'
BUDGET = {'quick': 600, 'thorough': 2400}
RULE = ('host configurations enumerated as a product (all resource-name subsets of size <=2 x all value-kind assignments, '
        'size-3 subsets with rotated kinds) x middleware set x mount x view; fault layer: each peripheral x phase x '
        'exception type; one evaluation = one meta page; non-trivial = host with at least one secret-named resource or an '
        'injected failure; distinct = distinct (mount, view, resource-shape, outcome) classes')
ASSUMPTIONS = ['sentinels are alphanumeric so that raw, HTML-, JSON- and repr-escaped forms coincide (bytes and ints are '
               'searched by their digits/letters)', 'redaction is decided on the resource *name* containing "secret"']

NAMES = ['secret', 'secret_key', 'db_secret_url', 'my_secretX', 'token', 's', 'payment_gateway_webhook_signing_secret',
         'page_title',      # page_title: also the name of one of the meta application's own resources
         u'caf\udce9 file', u'secret caf\udce9', u'<b>&"name"']   # names that are not identifiers: surrogate-escaped, markup
KINDS = ['str', 'bytes', 'int', 'nested', 'reprobj', 'longstr', 'surrstr']
MOUNTS = ['/_meta/', '/m', '/', 'deep', 'static-first', 'titled']
# static-first: a static application and the meta application share one prefix, the static one listed first
# (its misses fall through to the meta pages)
MWSETS = ['none', 'cookie', 'custom', 'subclass', 'provides-shapes', 'ctxproc-of-resources', 'cookie-positional',
          'ctxproc-live-defaults']
VIEWS = ['html', 'json']
COOKIE_KEY = b'ZQCOOKIEKEY77abc'
EXC_TYPES = ['ValueError', 'KeyError', 'RuntimeError', 'OSError', 'ZeroDivisionError', 'NotImplementedError', 'CustomError',
             'AttributeError', 'TypeError',
             # raised without arguments (a bare `raise NotImplementedError`)
             'NotImplementedError()', 'ValueError()', 'CustomError()', 'KeyError()']


def deadline_passed():
    d = os.environ.get('VERIF_DEADLINE')
    return bool(d) and time.time() > float(d)


class CustomError(Exception):
    pass


def sentinel(name):
    return 'ZQ%sVAL9' % ''.join(c for c in name if c.isalnum())[:24].upper()


class ReprObj(object):
    def __init__(self, s):
        self.s = s

    def __repr__(self):
        return '<ReprObj holding %s>' % self.s


class BadRepr(object):
    def __init__(self, exc_name):
        self.exc_name = exc_name

    def __repr__(self):
        import builtins
        name = self.exc_name.replace('()', '')
        T = CustomError if name == 'CustomError' else getattr(builtins, name)
        if self.exc_name.endswith('()'):
            raise T()
        raise T('repr failed on purpose')


def make_value(name, kind):
    s = sentinel(name)
    if kind == 'str':
        return s
    if kind == 'bytes':
        return s.encode('ascii')
    if kind == 'int':
        return int(''.join(str(ord(c) % 10) for c in s)[:15])
    if kind == 'nested':
        return {'inner': [1, {'deep': s}], 'other': (s,)}
    if kind == 'reprobj':
        return ReprObj(s)
    if kind == 'longstr':
        return s + 'x' * 200
    if kind == 'surrstr':
        return s + u' caf\udce9.txt'        # text with a lone surrogate (a file name decoded with surrogateescape)
    raise ValueError(kind)


def needle(name, kind):
    s = sentinel(name)
    if kind == 'int':
        return str(make_value(name, kind))
    return s


def resource_sets(tier):
    """List of [(name, kind), ...]"""
    out = [[]]
    for n in NAMES:
        for k in KINDS:
            out.append([(n, k)])
    for a, b in itertools.combinations(NAMES, 2):
        for ka in KINDS:
            for kb in (KINDS if tier == 'thorough' else KINDS[::2]):
                out.append([(a, ka), (b, kb)])
    for idx, combo in enumerate(itertools.combinations(NAMES, 3)):
        for shift in range(len(KINDS) if tier == 'thorough' else 2):
            out.append([(n, KINDS[(idx + j + shift) % len(KINDS)]) for j, n in enumerate(combo)])
    return out


class Endpoints(object):
    def method(self, request):
        return 'm'

    def __call__(self):
        return 'c'

    @staticmethod
    def static():
        return 's'

    @classmethod
    def cls(cls):
        return 'k'


def build_host(resources, mwset, mount, meta=None):
    from clastic import Application, MetaApplication, Middleware, StaticApplication, StaticFileRoute, render_basic
    from clastic.middleware.cookie import SignedCookieMiddleware
    from clastic.decorators import clastic_decorator
    from werkzeug.wrappers import Response

    @clastic_decorator
    def deco(f):
        def w(*a, **kw):
            return f(*a, **kw)
        return w

    @deco
    def decorated(request):
        return 'd'

    def func(request):
        return 'f'

    import re as _re

    def with_defaults(request, a=object(), b=json.dumps, c=int, d=_re.compile('x+'), e=(1, 2), f={'k': {1, 2}}, g=b'bytes', h=1.5):
        return 'defaults'
    e = Endpoints()
    here = os.path.dirname(os.path.abspath(__file__))
    class Tmpl(object):
        # a render argument for the application's render factory that is neither text nor callable
        def __repr__(self):
            return '<Tmpl object>'
    inner = Application([('/inner', func, render_basic), ('/innert', func, Tmpl()), ('/innertt', func, ('tmpl.html', Tmpl()))],
                        render_factory=lambda arg: (lambda context: Response('rendered by factory')))
    routes = [('/func', func, render_basic), ('/lambda', lambda: 'l', render_basic), ('/method', e.method, render_basic),
              ('/callable', e, render_basic), ('/static', Endpoints.static, render_basic), ('/cls', Endpoints.cls, render_basic),
              ('/deco', decorated, render_basic), ('/defaults', with_defaults, render_basic), StaticFileRoute('/file', os.path.abspath(__file__)),
              ('/assets', StaticApplication(here)), ('/sub', inner), ('/tmpl', func, 'a_template_name')]
    mws = []
    if mwset == 'cookie':
        mws = [SignedCookieMiddleware(secret_key=COOKIE_KEY)]
    elif mwset == 'custom':
        class Custom(Middleware):
            def __init__(self):
                self.api_secret = 'ZQMWATTRVAL9'

            def request(self, next):
                return next()
        mws = [Custom(), SignedCookieMiddleware(secret_key=COOKIE_KEY, arg_name='sess')]
    elif mwset == 'ctxproc-of-resources':
        # the host copies every resource that is an identifier into every render context (its own pages want them)
        from clastic.middleware import SimpleContextProcessor
        names = [n for n in resources if n.isidentifier()]
        mws = [SimpleContextProcessor(*names)] if names else []
    elif mwset == 'cookie-positional':
        # the cookie middleware configured positionally, in the documented order (arg_name, cookie_name, secret_key)
        mws = [SignedCookieMiddleware('session', 'sid', COOKIE_KEY)]
    elif mwset == 'ctxproc-live-defaults':
        # context defaults that are live objects (a lock, a module, an open file): handed to templates, never copied
        import threading
        from clastic.middleware import ContextProcessor
        mws = [ContextProcessor(defaults={'zq_lock': threading.Lock(), 'zq_settings': os, 'zq_gen': (x for x in [1])})]
    elif mwset == 'badrepr':
        class BadReprMW(Middleware):
            def __repr__(self):
                raise RuntimeError('middleware repr failed on purpose')

            def request(self, next):
                return next()
        mws = [BadReprMW(), SignedCookieMiddleware(secret_key=COOKIE_KEY)]
    elif mwset == 'subclass':
        # the host's own flavour of the cookie middleware, nothing overridden
        class HostCookie(SignedCookieMiddleware):
            pass
        mws = [HostCookie(secret_key=COOKIE_KEY)]
    elif mwset == 'provides-shapes':
        # provides given as other iterables than a tuple - clastic only ever iterates it
        class PF(Middleware):
            provides = frozenset(['zq_f'])

            def request(self, next):
                return next(zq_f=1)

        class PK(Middleware):
            provides = {'zq_k': None}.keys()

            def request(self, next):
                return next(zq_k=1)

        class PL(Middleware):
            provides = ['zq_l']

            def request(self, next):
                return next(zq_l=1)
        mws = [PF(), PK(), PL()]
    class Tmpl(object):
        def __repr__(self):
            return '<Tmpl object>'
    meta = meta or MetaApplication()
    if mount == 'titled':
        # a page title and a host route whose text cannot be encoded (lone surrogates of both halves)
        meta = MetaApplication(page_title=u'ops \ud83d console \udc00')
        host = Application(routes + [(u'/caf\udce9/<x>', func, render_basic), ('/ops', meta)], resources=dict(resources), middlewares=mws)
        return host, '/ops'
    if mount == 'static-first':
        host = Application(routes + [('/ops', StaticApplication(here)), ('/ops', meta)], resources=dict(resources), middlewares=mws)
        return host, '/ops'
    if mount == 'deep':
        host = Application(routes + [('/m', meta)], resources=dict(resources), middlewares=mws)
        mid = Application([('/h', host)], resources=dict(resources), middlewares=[])
        top = Application([('/g', mid)], resources=dict(resources))
        return top, '/g/h/m'
    if mount == '/':
        # meta at the root: its routes come first, the host's own routes keep other paths
        host = Application([(mount, meta)] + routes, resources=dict(resources), middlewares=mws)
        return host, ''
    host = Application(routes + [(mount, meta)], resources=dict(resources), middlewares=mws)
    return host, mount.rstrip('/')


SCRIPT_NAMES = ['', '/mnt', u'/caf\xe9'.encode('utf-8').decode('latin-1'), '/caf\xe9', '/\xff\xfe']


def fetch(app, base, view, script_name=''):
    path = base + ('/' if view == 'html' else '/json/')
    if script_name:
        # the host is itself mounted by the WSGI server (SCRIPT_NAME as a server delivers it: bytes as latin-1)
        env = wsgi.make_environ(path, 'GET')
        env['SCRIPT_NAME'] = script_name
        return wsgi.call(app, None, environ=env)
    return wsgi.call(app, path, 'GET')


def name_listed(name, body):
    """The resource name appears in the page: as it is, HTML-escaped, JSON-escaped, or with its unencodable
    characters backslash-escaped."""
    import html as _html
    n = name[:20]
    forms = [n, _html.escape(n), _html.escape(n, quote=False), json.dumps(n)[1:-1], json.dumps(n, ensure_ascii=False)[1:-1]]
    safe = n.encode('utf-8', 'backslashreplace').decode('utf-8')
    forms += [safe, _html.escape(safe), json.dumps(safe)[1:-1]]
    forms.append(n.replace('"', '&quot;').replace('<', '&lt;').replace('>', '&gt;').replace('&', '&amp;'))
    return any(f in body for f in forms)


def check_page(acc, res, spec, view, case, label, expect_failure=None, require_resources=False):
    listing = expect_failure is None or require_resources
    def bad(k, msg):
        acc.violation('C18:%s:%s:%s' % (k, view, label), '%s; resources %r, %r -> %s %r'
                      % (msg, spec, case, res.status, (res.body or b'')[:200]), case)
    if res.raised is not None:
        bad('raised-%s' % type(res.raised).__name__, 'application raised %r' % (res.raised,))
        return False
    if res.code != 200:
        bad('status-%s' % res.code, 'meta page answered %s' % res.status)
        return False
    body = res.body.decode('utf-8', 'replace')
    if view == 'json':
        try:
            data = json.loads(body)
        except ValueError as e:
            bad('json-invalid', 'JSON view does not parse: %s' % e)
            return False
    if COOKIE_KEY.decode('ascii') in body:
        bad('cookie-key-disclosed', 'the cookie signing key appears in the page')
        return False
    for name, kind in spec:
        nd = needle(name, kind)
        if 'secret' in name:
            if nd in body:
                bad('secret-disclosed:%s' % ('longname' if len(name) > 32 else 'shortname'),
                    'value of resource %r (%s) appears in the page' % (name, kind))
                return False
            if listing and ('[REDACTED]' not in body or not name_listed(name, body)):
                bad('redaction-marker-missing', 'resource %r is not listed with the redaction marker' % name)
                return False
        else:
            if listing and kind != 'longstr' and nd not in body:
                bad('resource-hidden', 'value of non-secret resource %r (%s) is not visible' % (name, kind))
                return False
    if expect_failure is not None:
        if expect_failure not in body:
            bad('failure-not-reported', 'the failing section is not reported inline (expected %r in the page)' % expect_failure)
            return False
    if view == 'html' and sum(1 for t in ('Routes', 'Host Information', 'Python Runtime', 'Application Resources',
                                          'Process IDs and Settings') if t in body) < 3:
        bad('sections-missing', 'other sections are missing from the page')
        return False
    return True


def run_hosts(acc, tier, i, n):
    sets = resource_sets(tier)
    k = 0
    for si, spec in enumerate(sets):
        for mwset in (MWSETS if len(spec) <= 1 else [MWSETS[si % len(MWSETS)]]):
            for mount in MOUNTS:
                k += 1
                if k % n != i:
                    continue
                if k % 64 == i and deadline_passed():
                    acc.extra['cap_hit'] = 1
                    return
                resources = dict((name, make_value(name, kind)) for name, kind in spec)
                case = {'layer': 'hosts', 'spec': [list(x) for x in spec], 'mwset': mwset, 'mount': mount}
                try:
                    app, base = build_host(resources, mwset, mount)
                except Exception as e:
                    acc.violation('C18:host-construct:%s' % type(e).__name__, 'host cannot be built: %r %r' % (e, case), case)
                    continue
                for view in VIEWS:
                    # the host under a mount point of the WSGI server, rotating through SCRIPT_NAMES
                    sn = SCRIPT_NAMES[k % len(SCRIPT_NAMES)] if len(spec) <= 1 else ''
                    res = fetch(app, base, view, sn)
                    acc.evaluated += 1
                    acc.transitions += 1
                    acc.validated += 1
                    if any('secret' in nm for nm, _ in spec):
                        acc.add('nontrivial')
                    ok = check_page(acc, res, spec, view, dict(case, view=view, script_name=sn), 'hosts')
                    acc.outcome('hosts|%s|%s|%d-resources|%s' % (mount, view, len(spec), 'ok' if ok else 'bad'))
                if k % 997 == i:
                    acc.sample(case)


def run_faults(acc, tier, i, n):
    """E4: one failing section at a time."""
    from clastic import MetaApplication
    from clastic import meta as M
    import builtins
    k = 0
    spec = [('secret_key', 'str'), ('token', 'str')]
    resources = dict((name, make_value(name, kind)) for name, kind in spec)
    nper = len(M.DEFAULT_PERIPHERALS)
    for exc_full in EXC_TYPES:
        exc_name = exc_full.replace('()', '')
        noargs = exc_full.endswith('()')
        T = CustomError if exc_name == 'CustomError' else getattr(builtins, exc_name)
        # (a) a resource whose repr raises
        for mount in MOUNTS:
            k += 1
            if k % n != i:
                continue
            res2 = dict(resources, broken=BadRepr(exc_full))
            app, base = build_host(res2, 'cookie', mount)
            for view in VIEWS:
                res = fetch(app, base, view)
                acc.evaluated += 1
                acc.transitions += 1
                acc.validated += 1
                acc.add('nontrivial')
                case = {'layer': 'faults', 'fault': 'resource-repr', 'exc': exc_full, 'mount': mount, 'view': view}
                ok = check_page(acc, res, spec, view, case, 'resource-repr-raises', expect_failure=exc_name if exc_name != 'CustomError' else 'CustomError')
                acc.outcome('fault|resource-repr|%s|%s' % (view, 'ok' if ok else 'bad'))
        # (a2) a host middleware whose repr raises: the resources are still listed (with their redaction)
        if exc_full == EXC_TYPES[0]:
            for mount in MOUNTS:
                k += 1
                if k % n != i:
                    continue
                app, base = build_host(resources, 'badrepr', mount)
                for view in VIEWS:
                    res = fetch(app, base, view)
                    acc.evaluated += 1
                    acc.transitions += 1
                    acc.validated += 1
                    acc.add('nontrivial')
                    case = {'layer': 'faults', 'fault': 'middleware-repr', 'exc': 'RuntimeError', 'mount': mount, 'view': view}
                    # (mounted three levels deep the serving application has no middleware of its own: nothing fails)
                    ok = check_page(acc, res, spec, view, case, 'middleware-repr-raises',
                                    expect_failure=None if mount == 'deep' else 'RuntimeError', require_resources=True)
                    acc.outcome('fault|middleware-repr|%s|%s' % (view, 'ok' if ok else 'bad'))
        # (b) each peripheral's get_context / render raising
        for pi in range(nper):
            for phase in ('get_context', 'render_main_page_html'):
                k += 1
                if k % n != i:
                    continue
                peris = list(M.DEFAULT_PERIPHERALS)
                orig = peris[pi]

                class Failing(type(orig)):
                    pass

                def boom(*a, **kw):
                    if noargs:
                        raise T()
                    raise T('section failed on purpose')
                failing = Failing.__new__(Failing)
                failing.__dict__.update(getattr(orig, '__dict__', {}))
                setattr(failing, phase, boom)
                peris[pi] = failing
                meta = MetaApplication(base_peripherals=peris)
                app, base = build_host(resources, 'cookie', '/m', meta=meta)
                for view in VIEWS:
                    if view == 'json' and phase != 'get_context':
                        continue
                    res = fetch(app, base, view)
                    acc.evaluated += 1
                    acc.transitions += 1
                    acc.validated += 1
                    acc.add('nontrivial')
                    case = {'layer': 'faults', 'fault': phase, 'peripheral': type(orig).__name__, 'exc': exc_full, 'view': view}
                    # the resources section itself may be the failing one: then nothing about resources is required
                    exp = exc_name
                    sp = [] if type(orig).__name__ == 'ResourcePeripheral' else spec
                    if type(orig).__name__ == 'PythonPeripheral' and view == 'html' and phase == 'render_main_page_html':
                        pass
                    ok = check_page(acc, res, sp, view, case, 'section-raises-%s' % phase, expect_failure=exp)
                    acc.outcome('fault|%s|%s|%s' % (phase, view, 'ok' if ok else 'bad'))


def nshards(tier):
    return 32


def shard(tier, i, n, seed):
    common.setup_repo()
    acc = common.Acc()
    run_hosts(acc, tier, i, n)
    if not acc.extra.get('cap_hit'):
        run_faults(acc, tier, i, n)
    return acc


def finish(tier, merged, results):
    oc = merged['outcomes']
    if not merged['violations']:
        if not any(k.startswith('fault|') for k in oc) or not any(k.startswith('hosts|deep') for k in oc):
            raise common.InternalError('vacuous')
    return {'bounds': {'resource_sets': len(resource_sets(tier)), 'names': NAMES, 'value_kinds': KINDS, 'mounts': MOUNTS,
                       'middleware_sets': MWSETS, 'views': VIEWS, 'fault_exception_types': EXC_TYPES},
            'distinct_nontrivial': merged['extra'].get('nontrivial', 0)}


def replay(case):
    common.setup_repo()
    acc = common.Acc()
    if case.get('layer') == 'hosts':
        spec = [tuple(x) for x in case['spec']]
        resources = dict((name, make_value(name, kind)) for name, kind in spec)
        app, base = build_host(resources, case['mwset'], case['mount'])
        res = fetch(app, base, case['view'], case.get('script_name', ''))
        ok = check_page(acc, res, spec, case['view'], case, 'hosts')
        return ok, (acc.violations[0]['desc'][:1500] if acc.violations else 'ok')
    run_faults(acc, 'quick', 0, 1)
    vs = [v for v in acc.violations if v['case'].get('fault') == case.get('fault') and v['case'].get('exc') == case.get('exc')]
    if vs:
        return False, vs[0]['desc'][:1500]
    return True, 'ok'
