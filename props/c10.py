# -*- coding: utf-8 -*-
"""C10 - embedding a sub-application is equivalent to declaring its routes flat.

Complete products of application trees (chains of depth 2 and 3) over
prefixes, middleware lists, resources, slash modes, error handlers, render
factories and the inherit_slashes / rebind_render flags.  For each tree the
nested real Application and a flat real Application built from
ref/flatten.py are driven with the same request catalogue; status, body,
Location, Content-Type and the middleware enter/leave trace must be equal.
"""
import itertools
import os
import time

from mc import common, wsgi
from ref import flatten as F

ID = 'C10'
LEVEL = 'model_checking'
BUDGET = {'quick': 420, 'thorough': 3300}
RULE = ('trees enumerated as complete products per layer (A: middleware/resource structure, B: slash/render/handler '
        'structure, AB: full depth-2 cross product in the thorough tier); one evaluation = one request sent to both '
        'applications; non-trivial = request under the embedding prefix; distinct = distinct (layer, status, kind of '
        'response) classes')
ASSUMPTIONS = ['ref/flatten.py is the trusted statement of the flat declaration (merge, precedence, slash, render rules)',
               'a resource name defined only by inner levels is not generated unless the outermost level defines it too',
               '500 bodies are compared on their first 40 bytes (they embed object reprs)']

S_REDIRECT, S_REWRITE, S_STRICT = 'redirect', 'rewrite', 'strict'
MWSETS = {'none': [], 'A': ['A'], 'N': ['N'], 'AB': ['A', 'B'], 'BA': ['B', 'A'], 'At': ['At'], 'AAt': ['A', 'At'],
          'As': ['As'], 'AsA': ['As', 'A']}
UNIQUE = {'A': True, 'B': True, 'N': False, 'At': True, 'As': True}
# At: a different class that happens to carry the same __name__ as A (another package's AuthMiddleware);
# As: a subclass of A.  Both are types of their own for the merge rule.
CLASSNAME = {'At': 'A'}
REQ_PATHS = ['/x', '/x/', '/b', '/b/', '/b//', '/t', '/boom', '/m', '/zz', '/', '/own', '/t9', '/f', '/f/']
REQ_METHODS = ['GET', 'POST']


THIS_FILE = os.path.abspath(__file__)


def deadline_passed():
    d = os.environ.get('VERIF_DEADLINE')
    return bool(d) and time.time() > float(d)


def inner_routes():
    return [{'pattern': '/x', 'endpoint': 'res'}, {'pattern': '/b/', 'endpoint': 'res'},
            {'pattern': '/t', 'endpoint': 'ctx', 'render': 'tmpl'}, {'pattern': '/boom', 'endpoint': 'boom'},
            {'pattern': '/m', 'endpoint': 'res', 'methods': ['POST']}, {'pattern': '/x', 'endpoint': 'nb'},
            {'pattern': '/f', 'endpoint': 'file'}]       # a StaticFileRoute (a Route subclass with a bind() of its own, if any)


def own_routes(k):
    return [{'pattern': '/own', 'endpoint': 'res'}, {'pattern': '/t9', 'endpoint': 'ctx', 'render': 'tmpl%d' % k},
            {'pattern': '/own/b/', 'endpoint': 'res'}]


def level(prefix, mws, res, slash, factory, inherit=True, rebind=False, routes=None, debug=False):
    return {'prefix': prefix, 'mws': MWSETS[mws], 'unique': UNIQUE, 'res': res, 'slash': slash, 'factory': factory,
            'inherit': inherit, 'rebind': rebind, 'routes': routes, 'debug': debug}


def res_opts(k, outer_has_r):
    """Resource dicts for level k (values tagged with the level)."""
    if k == 0:
        return [{}, {'r': 'R0'}]
    out = [{}, {'s': 'S%d' % k}]
    if outer_has_r:
        out += [{'r': 'R%d' % k}, {'r': 'R%d' % k, 's': 'S%d' % k}]
    return out


def gen_A(depth, small=False):
    """structure layer: prefixes x middleware lists x resources (x debug); slash/render fixed"""
    prefixes = ['/', '/p', '/p/']
    mwk = ['none', 'A', 'N', 'AB'] if depth == 2 else ['none', 'A', 'N', 'BA']
    if small:
        prefixes = ['/p', '/q/']
        mwk = ['none', 'A', 'N']
    for pf in itertools.product(prefixes, repeat=depth - 1):
        for mws in itertools.product(mwk, repeat=depth):
            for r0 in res_opts(0, False):
                inner_res = [res_opts(k, bool(r0)) for k in range(1, depth)]
                if depth == 3:
                    # 's' only at the innermost level (two inner definitions have no documented precedence)
                    inner_res[0] = [d for d in inner_res[0] if 's' not in d]
                for rs in itertools.product(*inner_res):
                    for debug in ((False, True) if depth == 2 else (False,)):
                        lv = [level(None, mws[0], r0, S_REDIRECT, 'F0', routes=own_routes(0), debug=debug)]
                        for k in range(1, depth):
                            lv.append(level(pf[k - 1], mws[k], rs[k - 1], S_REDIRECT, None,
                                            routes=inner_routes() if k == depth - 1 else own_routes(k)))
                        yield lv


def gen_B(depth, small=False):
    """slash / render / handler layer: prefixes x slash modes x inherit x factories x rebind x debug"""
    prefixes = ['/', '/p', '/p/'] if depth == 2 else ['/p', '/q/']
    if small:
        prefixes = ['/p']
    slashes0 = [S_REDIRECT, S_STRICT, S_REWRITE]
    slashesk = [S_REDIRECT, S_STRICT, S_REWRITE] if depth == 2 else [S_REDIRECT, S_STRICT]
    for pf in itertools.product(prefixes, repeat=depth - 1):
        for sl in itertools.product(*([slashes0] + [slashesk] * (depth - 1))):
            for inh in itertools.product((True, False), repeat=depth - 1):
                for fac in itertools.product((None, 'F'), repeat=depth):
                    for reb in itertools.product((False, True), repeat=depth - 1):
                        for debug in ((False, True) if depth == 2 else (False,)):
                            lv = [level(None, 'A', {}, sl[0], fac[0] and 'F0', routes=own_routes(0), debug=debug)]
                            for k in range(1, depth):
                                lv.append(level(pf[k - 1], 'none', {}, sl[k], fac[k] and 'F%d' % k, inh[k - 1], reb[k - 1],
                                                routes=inner_routes() if k == depth - 1 else own_routes(k)))
                            yield lv


def gen_AB2():
    """full depth-2 cross product (thorough)"""
    for prefix, omw, imw in itertools.product(['/', '/p', '/p/'], ['none', 'A', 'N', 'AB'], ['none', 'A', 'N', 'AB']):
        for r0 in res_opts(0, False):
            for r1 in res_opts(1, bool(r0)):
                for s0, s1 in itertools.product([S_REDIRECT, S_STRICT, S_REWRITE], [S_REDIRECT, S_STRICT]):
                    for debug, f0, f1, inh, reb in itertools.product((False, True), (None, 'F0'), (None, 'F1'),
                                                                     (True, False), (False, True)):
                        yield [level(None, omw, r0, s0, f0, routes=own_routes(0), debug=debug),
                               level(prefix, imw, r1, s1, f1, inh, reb, routes=inner_routes())]


def gen_TW():
    """look-alike middleware types at different levels (same class name, subclass)"""
    kinds = ['A', 'At', 'AAt', 'As', 'AsA']
    for depth in (2, 3):
        for mws in itertools.product(kinds, repeat=depth):
            if depth == 3 and mws[1] != 'A':
                continue
            lv = [level(None, mws[0], {}, S_REDIRECT, 'F0', routes=own_routes(0))]
            for k in range(1, depth):
                lv.append(level('/p', mws[k], {}, S_REDIRECT, None,
                                routes=inner_routes() if k == depth - 1 else own_routes(k)))
            yield lv


def layers(tier):
    if tier == 'quick':
        return [('A2', lambda: gen_A(2)), ('B2', lambda: gen_B(2)), ('A3', lambda: gen_A(3, True)),
                ('B3', lambda: gen_B(3, True)), ('TW', gen_TW)]
    return [('A2', lambda: gen_A(2)), ('B2', lambda: gen_B(2)), ('A3', lambda: gen_A(3)), ('B3', lambda: gen_B(3)),
            ('AB2', gen_AB2), ('TW', gen_TW)]


class Builder(object):
    def __init__(self):
        from clastic import Middleware
        from clastic.errors import NotFound
        from werkzeug.wrappers import Response
        self.LOG = []
        LOG = self.LOG

        def mk(name, unique):
            class _M(Middleware):
                def __init__(self, tag):
                    self.tag = tag

                def request(self, next):
                    LOG.append('>' + self.tag)
                    try:
                        return next()
                    finally:
                        LOG.append('<' + self.tag)
            if name in ('B', 'N'):
                # these types also wrap the WSGI application (arrives with the embedded application's routes)
                def wsgi_wrapper(self, inner):
                    tag = self.tag

                    def wrapped(environ, start_response):
                        LOG.append('[' + tag)
                        return inner(environ, start_response)
                    return wrapped
                _M.wsgi_wrapper = wsgi_wrapper
            _M.__name__ = CLASSNAME.get(name, name)
            _M.__qualname__ = _M.__name__
            _M.unique = unique
            return _M
        self.CLS = dict((n, mk(n, u)) for n, u in UNIQUE.items() if n != 'As')

        class As(self.CLS['A']):
            pass
        self.CLS['As'] = As

        def ep_res(r='noR', s='noS'):
            return Response('res r=%s s=%s' % (r, s))

        def ep_ctx(r='noR'):
            return {'k': 'v', 'r': r}

        def ep_boom():
            raise ValueError('boom')

        def ep_nb():
            raise NotFound(is_breaking=False)
        self.EPS = {'res': ep_res, 'ctx': ep_ctx, 'boom': ep_boom, 'nb': ep_nb}
        self.Response = Response

    def handler(self, k, debug, with_r=False):
        """Every level gets its own error handler that stamps the responses it renders; when the level defines
        the resource r, its render_error consumes it (the serving application's value must arrive)."""
        from clastic.errors import ErrorHandler, ContextualErrorHandler
        base = ContextualErrorHandler if debug else ErrorHandler

        if with_r:
            class H(base):
                def render_error(self, request, _error, r):
                    resp = base.render_error(self, request, _error)
                    resp.headers['X-Handler'] = 'level%d r=%s' % (k, r)
                    return resp
        else:
            class H(base):
                def render_error(self, request, _error):
                    resp = base.render_error(self, request, _error)
                    resp.headers['X-Handler'] = 'level%d' % k
                    return resp
        return H()

    def factory(self, tag):
        Response = self.Response

        def fac(arg):
            def render(context):
                return Response('%s:%s:%r' % (tag, arg, sorted(context.items())))
            return render
        return fac

    def nested(self, levels, style='constructor', prebuilt=None):
        """style 'add0': the embedded level is added with add(entry, 0) after the level's own routes.
        prebuilt: (application, instances) of the innermost level, to embed one application object again."""
        from clastic import Application, Route, SubApplication
        insts = {}
        app = None
        early_sub = None
        for k in range(len(levels) - 1, -1, -1):
            lv = levels[k]
            if prebuilt is not None and k == len(levels) - 1:
                app = prebuilt[0]
                insts.update(prebuilt[1])
                continue
            mws = [self.CLS[n]('%s@%d' % (n, k)) for n in lv['mws']]
            for n, m in zip(lv['mws'], mws):
                insts[(n, k)] = m
            routes = []
            sub_entry = None
            if app is not None:
                sub = levels[k + 1]
                if style == 'tuple4':
                    # the tuple spelling with its options: (prefix, application, rebind_render, inherit_slashes)
                    sub_entry = (sub['prefix'], app, sub['rebind'], sub['inherit'])
                else:
                    sub_entry = early_sub or SubApplication(sub['prefix'], app, rebind_render=sub['rebind'],
                                                            inherit_slashes=sub['inherit'])
                if style != 'add0':
                    routes.append(sub_entry)
            for r in lv['routes']:
                if r['endpoint'] == 'file':
                    from clastic import StaticFileRoute
                    routes.append(StaticFileRoute(r['pattern'], THIS_FILE))
                    continue
                routes.append(Route(r['pattern'], self.EPS[r['endpoint']], r.get('render'), methods=r.get('methods')))
            kw = {'error_handler': self.handler(k, k == 0 and lv.get('debug'), 'r' in lv['res'])}
            if style == 'early' and k > 0:
                # the embedding wrapper is created while the application is still empty; its routes come afterwards
                app = Application([], resources=lv['res'], middlewares=mws, slash_mode=lv['slash'],
                                  render_factory=self.factory(lv['factory']) if lv['factory'] else None, **kw)
                early_sub = SubApplication(lv['prefix'], app, rebind_render=lv['rebind'], inherit_slashes=lv['inherit'])
                for r in routes:
                    app.add(r)
                continue
            early_sub = None
            app = Application(routes, resources=lv['res'], middlewares=mws, slash_mode=lv['slash'],
                              render_factory=self.factory(lv['factory']) if lv['factory'] else None, **kw)
            if sub_entry is not None and style == 'add0':
                app.add(sub_entry, 0)
        return app, insts

    def flat(self, levels, insts):
        from clastic import Application, Route
        lv0 = levels[0]
        kw = {'error_handler': self.handler(0, lv0.get('debug'), 'r' in lv0['res'])}
        app = Application([], resources=lv0['res'], middlewares=[insts[(n, 0)] for n in lv0['mws']],
                          slash_mode=lv0['slash'], **kw)
        for fr in F.flatten(levels):
            render = None
            if fr['render'] is not None and fr['render'][0] != 'noop':
                render = self.factory(fr['render'][0])(fr['render'][1])
            route_mws = [insts[(n, k)] for n, k in fr['mws'] if k != 0]
            if fr['endpoint'] == 'file':
                from clastic import StaticFileRoute
                rt = StaticFileRoute(fr['pattern'], THIS_FILE)
                rt.slash_mode = fr['slash']
                rt.middlewares = route_mws
                rt.resources = dict(fr['res'])
                app.add(rt, inherit_slashes=False)
                continue
            rt = Route(fr['pattern'], self.EPS[fr['endpoint']], render, methods=fr['methods'], middlewares=route_mws,
                       resources=fr['res'], slash_mode=fr['slash'])
            app.add(rt, inherit_slashes=False)
        return app


def observe(app, LOG, path, method):
    del LOG[:]
    res = wsgi.call(app, path, method, headers={'Accept': 'text/plain'})
    body = res.body
    if res.code == 500 and body is not None:
        body = body[:40]
    return (res.status, body, res.header('Location'), res.header('Content-Type'), tuple(LOG),
            repr(res.raised) if res.raised else None, res.header('X-Handler'))


def tier_is_quick():
    return os.environ.get('C10_TIER', 'quick') == 'quick'


def describe(levels):
    return [dict((k, v) for k, v in lv.items() if k not in ('unique', 'routes')) for lv in levels]


def check_tree(acc, b, levels, layer, style='constructor', prebuilt=None):
    case = {'levels': levels, 'layer': layer, 'style': style}
    try:
        nested, insts = b.nested(levels, style, prebuilt)
    except Exception as e:
        acc.violation('C10:nested-construct:%s' % type(e).__name__, 'nested tree rejected: %r; %r' % (e, describe(levels)), case)
        return
    try:
        flat = b.flat(levels, insts)
    except Exception as e:
        acc.violation('C10:flat-construct:%s' % type(e).__name__,
                      'flat declaration rejected (%r) although the nested tree was accepted; %r' % (e, describe(levels)), case)
        return
    # the flat application is built by clastic too: the merged middleware list of every route is therefore also
    # compared with the reference's (ref/flatten.py) directly
    if prebuilt is None:
        want_rows = [(fr['pattern'], ['%s@%d' % (n, k) for n, k in fr['mws']]) for fr in F.flatten(levels)]
        got_rows = [(br.pattern, [getattr(m, 'tag', '?') for m in br.middlewares]) for br in nested.routes]
        if got_rows != want_rows:
            diff = [(g, w) for g, w in zip(got_rows, want_rows) if g != w][:2]
            acc.violation('C10:merged-middlewares', 'routes of the nested tree carry %r, the flat declaration says %r (first '
                          'differences); tree=%r' % ([d[0] for d in diff], [d[1] for d in diff], describe(levels)), case)
            return
    bases = []
    for k in ((0, len(levels) - 1) if (layer.endswith('3') and tier_is_quick()) else range(len(levels))):
        pf = F.full_prefix(levels, k)
        if pf not in bases:
            bases.append(pf)
    for base in bases:
        for p in REQ_PATHS:
            for m in REQ_METHODS:
                path = base + p
                a = observe(nested, b.LOG, path, m)
                f = observe(flat, b.LOG, path, m)
                acc.evaluated += 1
                acc.transitions += 2
                acc.validated += 1
                kind = 'redirect' if a[2] else ('rendered' if (a[1] or b'').startswith(b'F') else 'plain')
                acc.outcome('%s|%s|%s|%s' % (layer, 'under' if base else 'root', a[0][:3], kind))
                if base:
                    acc.add('nontrivial')
                if a != f:
                    fields = ['status', 'body', 'location', 'content-type', 'mw-trace', 'raised', 'error-handler']
                    diff = [fields[i] for i in range(7) if a[i] != f[i]]
                    feat = []
                    if style == 'add0':
                        feat.append('added-at-index')
                    if style == 'early':
                        feat.append('wrapper-before-routes')
                    if style == 'tuple4':
                        feat.append('tuple-spelling')
                    if prebuilt is not None:
                        feat.append('embedded-again')
                    if any(not lv['inherit'] for lv in levels[1:]):
                        feat.append('own-slashes')
                    if any(lv['rebind'] for lv in levels[1:]):
                        feat.append('rebind')
                    if levels[0].get('debug'):
                        feat.append('debug')
                    acc.violation('C10:differs:%s:%s:%s' % ('+'.join(diff), a[0][:3] + '-vs-' + f[0][:3], '+'.join(feat) or 'plain'),
                                  '%s %s: nested %r, flat %r; tree=%r' % (m, path, a, f, describe(levels)),
                                  dict(case, path=path, method=m))


def reuse_cases():
    """One inner application object embedded twice, into differently configured outer applications."""
    outers = []
    for fac in (None, 'F0'):
        for reb in (False, True):
            for slash, mws in ((S_REDIRECT, 'none'), (S_STRICT, 'A')):
                outers.append((fac, reb, slash, mws))
    for ifac in (None, 'F1'):
        for imws in ('none', 'A', 'N'):
            for o1 in outers:
                for o2 in outers:
                    yield ifac, imws, o1, o2


def check_reuse(acc, b, ifac, imws, o1, o2):
    inner_lv = level('/p', imws, {}, S_REDIRECT, ifac, True, False, routes=inner_routes())
    # build the inner application once
    inner_app, inner_insts = b.nested([inner_lv])
    inner_insts = dict(((n, 1), m) for (n, k), m in inner_insts.items())
    trees = []
    for fac, reb, slash, mws in (o1, o2):
        lv0 = level(None, mws, {}, slash, fac, routes=own_routes(0))
        lv1 = dict(inner_lv, rebind=reb)
        trees.append([lv0, lv1])
    # embed it first into outer 1, then into outer 2; both embeddings (and the order) must equal their flat declarations
    for levels in trees:
        check_tree(acc, b, levels, 'REUSE', 'constructor', (inner_app, inner_insts))
    check_tree(acc, b, trees[0], 'REUSE', 'constructor', (inner_app, inner_insts))


def check_stock_defaults(acc):
    """An inner application whose stock context processor has a *defaulted* name; the name is on offer only further
    out (a resource of the middle / outermost application, or a binding of the embedding prefix).  Nested and flat
    declarations hand the same value to the processor."""
    import itertools
    import json
    from clastic import Application, Route, SubApplication, render_json
    from clastic.middleware import ContextProcessor, SimpleContextProcessor
    from mc import wsgi

    def profile():
        return {'page': 'profile'}

    def get(app, path):
        r = wsgi.call(app, path, 'GET')
        try:
            return r.code, json.loads((r.body or b'').decode('utf-8')), r.raised
        except ValueError:
            return r.code, (r.body or b'')[:80], r.raised
    for proc, source, depth, mwlevel, twice in itertools.product(('ctx', 'simple'), ('outer-res', 'mid-res', 'prefix', 'none'), (1, 2),
                                                                 ('app', 'route'), (False, True)):
        if source == 'mid-res' and depth == 1:
            continue
        acc.evaluated += 1
        acc.validated += 1
        acc.transitions += 3
        acc.add('nontrivial')
        mk = (lambda: ContextProcessor(defaults={'user': 'anonymous'})) if proc == 'ctx' else (lambda: SimpleContextProcessor(user='anonymous'))
        case = {'layer': 'STOCK-DEFAULTS', 'proc': proc, 'source': source, 'depth': depth, 'mwlevel': mwlevel, 'twice': twice}
        try:
            p = mk()
            inner = Application([Route('/profile', profile, render_json, middlewares=[p] if mwlevel == 'route' else [])],
                                middlewares=[p] if mwlevel == 'app' else [])
            alone = get(inner, '/profile')
            mid = inner
            if depth == 2:
                mid = Application([('/account', inner)], resources={'user': 'bob'} if source == 'mid-res' else {})
            prefix = '/<user>' if source == 'prefix' else '/site'
            if twice:
                # the same inner application is first embedded somewhere the name is not on offer
                Application([SubApplication('/elsewhere', mid)])
            outer = Application([SubApplication(prefix, mid)], resources={'user': 'bob'} if source == 'outer-res' else {})
            full = prefix + ('/account' if depth == 2 else '') + '/profile'
            flat = Application([Route(full, profile, render_json, middlewares=[mk()])],
                               resources={'user': 'bob'} if source in ('outer-res', 'mid-res') else {})
        except Exception as e:
            acc.violation('C10:stock-defaults:construct', 'construction raised %r; %r' % (e, case), case)
            continue
        path = full.replace('<user>', 'bob')
        want_user = 'anonymous' if source == 'none' else 'bob'
        n_res, f_res = get(outer, path), get(flat, path)
        acc.outcome('stock-defaults|%s|200|rendered' % source)
        if alone[1] != {'page': 'profile', 'user': 'anonymous'}:
            acc.violation('C10:stock-defaults:alone', 'the inner application on its own answers %r; %r' % (alone, case), case)
        elif n_res != f_res or f_res[1] != {'page': 'profile', 'user': want_user}:
            acc.violation('C10:stock-defaults:nested-vs-flat', 'nested declaration answers %r, flat declaration %r, the name %s; %r'
                          % (n_res, f_res, 'is not on offer anywhere' if source == 'none' else 'is on offer as ' + source, case), case)


STOCK_PREFIXES = ['/in', '/v1/api', '/v1/api/', '/a/b/c']
STOCK_REQS = ['{p}/r', '{p}/r/', '{p}//r', '/{p}/r', '{pp}/r', '{p}/b/', '{p}/b', '{pp}/b']


def check_stock_levels(acc, part=0, nparts=1):
    """Every stock middleware class at two levels (the embedding application's instance and the embedded one's), under
    literal prefixes of one to three segments: the nested declaration is accepted like the flat one with the merged
    list and answers every request - also those with repeated slashes inside the prefix - the same way."""
    from clastic import Application, Route
    from werkzeug.wrappers import Response
    from mc import wsgi
    from props import c03
    k = 0
    for label, mk in [('none', None)] + c03.stock_pairs():
        for prefix in STOCK_PREFIXES:
            for mode in ('redirect', 'rewrite', 'strict'):
                k += 1
                if k % nparts != part:
                    continue
                acc.evaluated += 1
                acc.validated += 1
                acc.add('nontrivial')
                case = {'layer': 'STOCK-LEVELS', 'mw': label, 'prefix': prefix, 'mode': mode}
                ep = lambda: Response('leaf')
                epb = lambda: Response('branch')
                pp = prefix.rstrip('/')
                try:
                    flat = Application([Route(pp + '/r', ep), Route(pp + '/b/', epb)], middlewares=[mk(0)] if mk else [], slash_mode=mode)
                except Exception as e:
                    raise common.InternalError('flat declaration failed: %r' % (e,))
                try:
                    inner = Application([Route('/r', ep), Route('/b/', epb)], middlewares=[mk(1)] if mk else [], slash_mode=mode)
                    nested = Application([(prefix, inner)], middlewares=[mk(0)] if mk else [], slash_mode=mode)
                except Exception as e:
                    acc.violation('C10:stock-levels:construct:%s' % label, 'embedding an application that carries its own %s under %r in one '
                                  'that carries one too raised %r; the flat declaration is accepted' % (label, prefix, e), case)
                    continue
                for tmpl in STOCK_REQS:
                    path = tmpl.format(p=pp, pp=pp.replace('/', '//', 2)[1:] if pp.count('/') > 1 else pp)
                    a, b = wsgi.call(nested, path, 'GET'), wsgi.call(flat, path, 'GET')
                    acc.transitions += 2
                    acc.outcome('stock-levels|%s|rendered' % a.code)
                    if (a.code, a.body, a.header('Location'), repr(a.raised)) != (b.code, b.body, b.header('Location'), repr(b.raised)):
                        acc.violation('C10:stock-levels:differs:%s' % ('mw' if mk else 'plain'), 'GET %s: nested declaration (prefix %r, %s mode, %s) answers '
                                      '%s %r %r, flat declaration %s %r %r' % (path, prefix, mode, label, a.status, (a.body or b'')[:40], a.header('Location'),
                                                                                b.status, (b.body or b'')[:40], b.header('Location')), case)
                        break


def nshards(tier):
    return 32 if tier == 'quick' else 64


def shard(tier, i, n, seed):
    common.setup_repo()
    os.environ['C10_TIER'] = tier
    acc = common.Acc()
    b = Builder()
    k = 0
    for name, gen in layers(tier):
        for levels in gen():
            k += 1
            if k % n != i:
                continue
            if deadline_passed():
                acc.extra['cap_hit'] = 1
                return acc
            check_tree(acc, b, levels, name, ('constructor', 'add0', 'early', 'tuple4')[(k // n) % 4])
            acc.add('trees')
            if k % 1777 == i:
                acc.sample({'layer': name, 'tree': describe(levels)})
    if i == 2 % n:
        check_stock_defaults(acc)
    check_stock_levels(acc, i, n)
    for j, (ifac, imws, o1, o2) in enumerate(reuse_cases()):
        if j % n != i:
            continue
        if deadline_passed():
            acc.extra['cap_hit'] = 1
            return acc
        check_reuse(acc, b, ifac, imws, o1, o2)
        acc.add('trees', 3)
    return acc


def finish(tier, merged, results):
    oc = merged['outcomes']
    if not merged['violations']:
        for need in ('|200|rendered', '|302|redirect', '|404|', '|405|', '|500|'):
            if not any(need in k for k in oc):
                raise common.InternalError('vacuous: no outcome like %s' % need)
    sizes = dict((name, sum(1 for _ in gen())) for name, gen in layers(tier))
    return {'bounds': {'trees_per_layer': sizes, 'requests_per_prefix': len(REQ_PATHS) * len(REQ_METHODS)},
            'distinct_nontrivial': merged['extra'].get('nontrivial', 0),
            'coverage': {'trees': merged['extra'].get('trees', 0)}}


def replay(case):
    common.setup_repo()
    acc = common.Acc()
    b = Builder()
    if case.get('layer') == 'STOCK-LEVELS':
        check_stock_levels(acc)
        bad = [v for v in acc.violations if v['case'] == case]
        return (False, bad[0]['desc'][:3000]) if bad else (True, 'ok')
    if case.get('layer') == 'STOCK-DEFAULTS':
        check_stock_defaults(acc)
        bad = [v for v in acc.violations if v['case'] == case]
        return (False, bad[0]['desc'][:3000]) if bad else (True, 'ok')
    if case.get('layer') == 'REUSE':
        for ifac, imws, o1, o2 in reuse_cases():
            check_reuse(acc, b, ifac, imws, o1, o2)
            if acc.violations:
                break
    else:
        check_tree(acc, b, case['levels'], case.get('layer', 'replay'), case.get('style', 'constructor'))
    if acc.violations:
        return False, acc.violations[0]['desc'][:3000]
    return True, 'ok'
