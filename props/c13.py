# -*- coding: utf-8 -*-
"""C13 - an Application is a conforming WSGI application.

(a) every response kind x method x header set, driven through
wsgiref.validate.validator with a recording start_response, HEAD bodies and
open-file tracking (the `open` clastic.static looks up is a seam);
(b) every list of <= 3 wsgi_wrapper middlewares over {unique U1, unique U2,
non-unique V} at the embedding and the embedded level x routes given to the
constructor or added later: observed wrapper order against the documented
merge rule; (c) RerouteWSGI raised / used as endpoint x target behaviours:
same environ entries, verbatim relay.
"""
import itertools
import os
import sys
import tempfile
import shutil
import time
import warnings
from wsgiref.validate import validator

from mc import common, wsgi

ID = 'C13'
LEVEL = 'model_checking'
BUDGET = {'quick': 300, 'thorough': 1800}
RULE = ('(a) application variants x request catalogue (paths x 4 methods x header sets) completely; (b) all wrapper '
        'stacks of <=3 (thorough 4) per level x embedding x construction style; (c) reroute kinds x targets x methods; '
        'one evaluation = one WSGI call; non-trivial = HEAD / static / conditional / error / wrapped / rerouted calls; '
        'distinct = distinct (part, response kind, method, outcome) classes')
ASSUMPTIONS = ['wsgiref.validate.validator is the conformance oracle the property names',
               'files are opened through the module-level name `open` of clastic.static (seam)',
               'wrapper order expectation: ref merge rule (outer list first, unique types once, non-unique instances all)']


def deadline_passed():
    d = os.environ.get('VERIF_DEADLINE')
    return bool(d) and time.time() > float(d)


class OpenTracker(object):
    def __init__(self):
        import clastic.static as st
        self.st = st
        self.had = hasattr(st, 'open')
        self.orig = getattr(st, 'open', None)
        self.files = []
        tracker = self

        def tracked_open(*a, **kw):
            f = open(*a, **kw)
            tracker.files.append(f)
            return f
        st.open = tracked_open

    def leaked(self):
        return [f.name for f in self.files if not f.closed]

    def reset(self):
        for f in self.files:
            try:
                f.close()
            except Exception:
                pass
        self.files = []

    def uninstall(self):
        if self.had:
            self.st.open = self.orig
        else:
            try:
                del self.st.open
            except AttributeError:
                pass


def call_validated(app, environ):
    """Returns dict(status, headers, body, sr_calls, error)"""
    out = {'status': None, 'headers': None, 'body': None, 'sr_calls': 0, 'error': None, 'kind': None}
    calls = []

    def start_response(status, headers, exc_info=None):
        calls.append((status, headers))
        return lambda data: None
    try:
        with warnings.catch_warnings():
            warnings.simplefilter('ignore')
            it = validator(app)(environ, start_response)
            chunks = []
            try:
                for c in it:
                    chunks.append(c)
            finally:
                it.close()
            out['body'] = b''.join(chunks)
    except AssertionError as e:
        out['error'] = 'validator: %s' % (e,)
        out['kind'] = 'validator'
    except Exception as e:
        out['error'] = 'raised %r' % (e,)
        out['kind'] = 'raised-%s' % type(e).__name__
    out['sr_calls'] = len(calls)
    if calls:
        out['status'], out['headers'] = calls[-1]
    return out


# ---- (a) response kinds -------------------------------------------------------------------------------

def build_scenario(tmpdir, variant):
    from clastic import Application, Route, POST, StaticApplication, StaticFileRoute, MetaApplication, render_basic
    from clastic.middleware import GzipMiddleware, HTTPCacheMiddleware
    from clastic.errors import Forbidden
    from werkzeug.wrappers import Response

    def resp():
        return Response(b'hello ' * 200, mimetype='text/plain')

    def stream():
        def gen():
            yield b'part1 '
            yield b'part2'
        return Response(gen(), mimetype='text/plain')

    def ctx():
        return {'a': 1, 'b': [1, 2]}

    def boom():
        raise ValueError('boom')

    def forbidden():
        raise Forbidden('no')

    def boom_surr():
        raise ValueError(u'cannot read caf\udce9.txt')       # a file name decoded with surrogateescape

    def forbidden_surr():
        raise Forbidden(u'no access to caf\udce9.txt')

    def posted(request):
        return Response(b'posted %d' % len(request.get_data()))

    def opt_ep(a, b):
        return Response('a=%r b=%r' % (a, b), mimetype='text/plain')
    from clastic import SubApplication, S_STRICT
    fpath = os.path.join(tmpdir, 'served.txt')
    from clastic.render import JSONRender, JSONPRender, render_json_dev
    routes = [('/sjson', ctx, JSONRender(streaming=True)), ('/sjsonp', ctx, JSONPRender(streaming=True)),
              ('/jsond', ctx, render_json_dev),
              ('/resp', resp), ('/stream', stream), ('/ctx', ctx, render_basic), StaticFileRoute('/file', fpath),
              ('/boomsurr', boom_surr), ('/forbsurr', forbidden_surr),
              ('/static', StaticApplication(tmpdir)), ('/branch/', resp), ('/item/<x>/', resp), ('/boom', boom), ('/forbidden', forbidden),
              POST('/post', posted), ('/meta', MetaApplication()),
              # a strict-mode part whose route consists of optional bindings only (asked for with none, one, both)
              SubApplication('/opt', Application([('/<a?>/<b?int>', opt_ep)], slash_mode=S_STRICT), inherit_slashes=False),
              Route('/sopt/<a?>/<b?float>', opt_ep, slash_mode=S_STRICT)]
    if variant == 'optroot':
        # a strict-mode application whose first route is made of optional bindings only: '/' is its empty assignment
        return Application([('/<a?>/<b?int>', opt_ep), ('/resp', resp), ('/<a?>/<b?>/<c?float>', lambda a, b, c: Response(repr((a, b, c))))],
                           slash_mode=S_STRICT)
    mws = {'plain': [], 'gzip': [GzipMiddleware()], 'cache': [HTTPCacheMiddleware()], 'debug': [],
           'gzip+cache': [GzipMiddleware(), HTTPCacheMiddleware()]}[variant]
    return Application(routes, middlewares=mws, debug=(variant == 'debug'))


PATHS = ['/boomsurr', '/forbsurr', '/sjson', '/sjsonp', '/jsond', '/item/a\x01b', '/item/\x7f/', '/item/tab\there', '/resp', '/stream', '/ctx', '/file', '/static/served.txt', '/static/noext', '/static/missing', '/branch', '/boom',
         '/forbidden', '/post', '/meta/', '/meta/json/', '/nothing/here', '/static/../x',
         '/', '/x', '/x/3', '/x/y/1.5', '/opt', '/opt/', '/opt/x', '/opt/x/3', '/opt//3', '/sopt', '/sopt/x', '/sopt/x/1.5', '/sopt//']
METHODS = ['GET', 'HEAD', 'POST', 'OPTIONS']
MTIME = 1500000000


def header_sets():
    lm = time.strftime('%a, %d %b %Y %H:%M:%S GMT', time.gmtime(MTIME))
    later = time.strftime('%a, %d %b %Y %H:%M:%S GMT', time.gmtime(MTIME + 1000))
    return [('none', {}), ('html', {'Accept': 'text/html'}), ('json', {'Accept': 'application/json'}),
            ('gzip', {'Accept-Encoding': 'gzip'}), ('ims-exact', {'If-Modified-Since': lm}), ('ims-later', {'If-Modified-Since': later}),
            ('inm', {'If-None-Match': '*'})]


def run_kinds(acc, i, n, tier):
    tmpdir = tempfile.mkdtemp(prefix='cv13')
    tracker = OpenTracker()
    try:
        for name, content in (('served.txt', b'static text file\n' * 50), ('noext', b'\x00\x01binary'), ('empty', b'')):
            p = os.path.join(tmpdir, name)
            with open(p, 'wb') as f:
                f.write(content)
            os.utime(p, (MTIME, MTIME))
        k = 0
        # history: another, default-configured application in this process went through serve() (which makes
        # *its* error handler re-raise for the debugger); this must not change how other applications answer
        from clastic import Application as _App
        _other = _App([('/x', lambda: None)])
        _other.serve(_jk_just_testing=True, use_meta=False, use_static=False)
        for variant in ('plain', 'gzip', 'cache', 'debug', 'gzip+cache', 'plain@2**32', 'plain@2**64', 'optroot'):
            if '@' in variant:
                # a long-lived process: the process-wide request counter has passed 2**32 / 2**64
                import clastic.application as _ca
                _ca._REQ_ID_ITER = itertools.count(eval(variant.split('@')[1]) - 40)
                variant_app = 'plain'
            else:
                variant_app = variant
            app = build_scenario(tmpdir, variant_app)
            for path in PATHS:
                for method in METHODS:
                    for hname, hdrs in header_sets():
                        k += 1
                        if k % n != i:
                            continue
                        etag_hdrs = dict(hdrs)
                        if hname == 'inm':
                            # use the ETag the application itself hands out, if any
                            pre = wsgi.call(app, path, 'GET')
                            et = pre.header('ETag') if pre.headers else None
                            tracker.reset()
                            if not et:
                                continue
                            etag_hdrs = {'If-None-Match': et}
                        env = wsgi.make_environ(path, method, headers=etag_hdrs, body=b'x=1' if method == 'POST' else b'')
                        tracker.reset()
                        r = call_validated(app, env)
                        acc.evaluated += 1
                        acc.transitions += 1
                        acc.validated += 1
                        code = (r['status'] or '???')[:3]
                        acc.outcome('kinds|%s|%s|%s' % (variant, path.split('/')[1], code))
                        if method != 'GET' or hname != 'none' or code != '200':
                            acc.add('nontrivial')
                        case = {'part': 'kinds', 'variant': variant, 'path': path, 'method': method, 'headers': hname}

                        def bad(kind, msg):
                            acc.violation('C13:%s:%s:%s:%s' % (kind, path.split('/')[1] or 'root', method if method == 'HEAD' else 'any', code),
                                          '%s; %s %s (%s) on variant %s -> %s' % (msg, method, path, hname, variant, r['status']), case)
                        if r['error']:
                            bad(r['kind'], r['error'])
                        elif r['sr_calls'] != 1:
                            bad('start-response-calls', 'start_response called %d times' % r['sr_calls'])
                        elif method == 'HEAD' and r['body']:
                            bad('head-body', 'HEAD response carries %d body bytes' % len(r['body']))
                        if k % 211 == i:
                            acc.sample(dict(case, status=r['status'], body_bytes=len(r['body'] or b'')))
                        leaked = tracker.leaked()
                        if leaked:
                            bad('file-left-open', 'files still open after close(): %r' % leaked)
                        tracker.reset()
    finally:
        tracker.reset()
        tracker.uninstall()
        shutil.rmtree(tmpdir, ignore_errors=True)


# ---- (b) wrapper stacks ---------------------------------------------------------------------------------

def expected_wrapper_order(outer, inner, embedded):
    """outer/inner: lists of (type, tag); returns list of tags outermost first."""
    uniq = {'U1': True, 'U2': True, 'V': False, 'U1s': True, 'Vi': False}
    out = []
    for t, tag in outer + (inner if embedded else []):
        if uniq[t] and any(x[0] == t for x in out):
            continue
        out.append((t, tag))
    return [tag for t, tag in out]


def run_wrappers(acc, i, n, tier):
    from clastic import Application, Middleware, Route
    from werkzeug.wrappers import Response
    LOG = []

    def mkcls(name, unique):
        class W(Middleware):
            def __init__(self, tag):
                self.tag = tag

            def wsgi_wrapper(self, inner):
                tag = self.tag

                def wrapped(environ, start_response):
                    LOG.append(tag)
                    return inner(environ, start_response)
                return wrapped
        W.__name__ = name
        W.unique = unique
        return W

    class FalsyCallable(object):
        """A perfectly callable wsgi_wrapper object that happens to be falsy (e.g. an empty registry)."""

        def __init__(self, tag):
            self.tag = tag

        def __len__(self):
            return 0

        def __call__(self, inner):
            tag = self.tag

            def wrapped(environ, start_response):
                LOG.append(tag)
                return inner(environ, start_response)
            return wrapped

    class U2(Middleware):
        def __init__(self, tag):
            self.tag = tag
            self.wsgi_wrapper = FalsyCallable(tag)
    CLS = {'U1': mkcls('U1', True), 'U2': U2, 'V': mkcls('V', False)}

    class U1s(CLS['U1']):
        # a subclass of U1: a unique type of its own
        pass
    CLS['U1s'] = U1s

    class Vi(mkcls('Vi', True)):
        # unique by class default, switched off for this instance (a constructor flag)
        def __init__(self, tag):
            self.tag = tag
            self.unique = False
    CLS['Vi'] = Vi
    maxlen = 3 if tier == 'quick' else 4
    stacks = [()]
    for L in range(1, maxlen + 1):
        stacks += list(itertools.product(('U1', 'U2', 'V', 'U1s', 'Vi'), repeat=L))
    # no duplicate unique type inside one list (not generated, see C03)
    stacks = [s for s in stacks if s.count('U1') <= 1 and s.count('U2') <= 1 and s.count('U1s') <= 1]
    k = 0
    for outer_s in stacks:
        for inner_s in (stacks if tier == 'thorough' else [s for s in stacks if len(s) <= 2]):
            for embedded in (False, True):
                if not embedded and inner_s:
                    continue
                for style in ('constructor', 'add-later', 'routeless'):
                    if style == 'routeless' and (embedded or inner_s):
                        continue      # an application without any route: its 404s still pass through every wrapper
                    k += 1
                    if k % n != i:
                        continue
                    outer = [(t, 'o%d%s' % (j, t)) for j, t in enumerate(outer_s)]
                    inner = [(t, 'i%d%s' % (j, t)) for j, t in enumerate(inner_s)]
                    route = Route('/x', lambda: Response('x'))
                    case = {'part': 'wrappers', 'outer': list(outer_s), 'inner': list(inner_s), 'embedded': embedded, 'style': style}
                    try:
                        if embedded:
                            inner_app = Application([route], middlewares=[CLS[t](tag) for t, tag in inner])
                            entry = ('/e', inner_app)
                            path = '/e/x'
                        else:
                            entry, path = route, '/x'
                        if style == 'routeless':
                            app = Application(middlewares=[CLS[t](tag) for t, tag in outer])
                            path = '/nothing'
                        elif style == 'constructor':
                            app = Application([entry], middlewares=[CLS[t](tag) for t, tag in outer])
                        else:
                            app = Application(middlewares=[CLS[t](tag) for t, tag in outer])
                            app.add(entry)
                    except Exception as e:
                        acc.violation('C13:wrappers-construct:%s' % type(e).__name__, 'cannot build %r: %r' % (case, e), case)
                        continue
                    del LOG[:]
                    res = wsgi.call(app, path, 'GET')
                    acc.evaluated += 1
                    acc.transitions += 1
                    acc.validated += 1
                    acc.add('nontrivial')
                    want = expected_wrapper_order(outer, inner, embedded)
                    got = list(LOG)
                    if k % 301 == i:
                        acc.sample(dict(case, wrappers_ran=got))
                    acc.outcome('wrappers|%s|%s|%d' % (style, 'embedded' if embedded else 'flat', len(want)))
                    if style == 'routeless':
                        if res.code != 404:
                            acc.violation('C13:wrappers-response', 'route-less application answered %s' % res.status, case)
                        elif got != want:
                            acc.violation('C13:wrapper-order:routeless', 'wrappers ran %r, expected %r; %r' % (got, want, case), case)
                        continue
                    if res.code != 200 or res.body != b'x':
                        acc.violation('C13:wrappers-response', 'wrapped application answered %s %r' % (res.status, res.body), case)
                    elif got != want:
                        feat = []
                        if style == 'add-later':
                            feat.append('routes-added-later')
                        if 'V' in outer_s + inner_s and (outer_s + inner_s).count('V') > 1:
                            feat.append('non-unique-twice')
                        if embedded and set(outer_s) & set(inner_s) - set(['V']):
                            feat.append('shared-unique-type')
                        if embedded and inner_s and style == 'add-later':
                            feat.append('embedded-added-later')
                        acc.violation('C13:wrapper-order:%s' % ('+'.join(feat) or 'plain'),
                                      'wrappers ran %r, expected %r; %r' % (got, want, case), case)


def run_sibling_wrappers(acc, i, n, tier):
    """Two sibling embedded applications / two routes with route-level middlewares, each with its own
    instances: a unique type must wrap once, every non-unique instance once, the embedding application's first."""
    from clastic import Application, Middleware, Route
    from werkzeug.wrappers import Response
    LOG = []

    def mkcls(name, unique):
        class W(Middleware):
            def __init__(self, tag):
                self.tag = tag

            def wsgi_wrapper(self, inner):
                tag = self.tag

                def wrapped(environ, start_response):
                    LOG.append(tag)
                    return inner(environ, start_response)
                return wrapped
        W.__name__ = name
        W.unique = unique
        return W
    CLS = {'U1': mkcls('U1', True), 'U2': mkcls('U2', True), 'V': mkcls('V', False)}
    small = [(), ('U1',), ('V',), ('U1', 'U2'), ('U2', 'V'), ('V', 'V')]
    k = 0
    for outer_s in [(), ('U1',), ('V',), ('U2', 'U1')]:
        for a_s in small:
            for b_s in small:
                for shape in ('sibling-apps', 'route-level'):
                    for style in ('constructor', 'add-later'):
                        k += 1
                        if k % n != i:
                            continue
                        outer = [CLS[t]('o%d%s' % (j, t)) for j, t in enumerate(outer_s)]
                        a = [CLS[t]('a%d%s' % (j, t)) for j, t in enumerate(a_s)]
                        b = [CLS[t]('b%d%s' % (j, t)) for j, t in enumerate(b_s)]
                        case = {'part': 'sibling-wrappers', 'outer': list(outer_s), 'a': list(a_s), 'b': list(b_s), 'shape': shape, 'style': style}
                        try:
                            if shape == 'sibling-apps':
                                entries = [('/a', Application([Route('/x', lambda: Response('x'))], middlewares=a)),
                                           ('/b', Application([Route('/x', lambda: Response('x'))], middlewares=b))]
                                path = '/a/x'
                            else:
                                entries = [Route('/ax', lambda: Response('x'), middlewares=a), Route('/bx', lambda: Response('x'), middlewares=b)]
                                path = '/ax'
                            if style == 'constructor':
                                app = Application(entries, middlewares=outer)
                            else:
                                app = Application(middlewares=outer)
                                for e in entries:
                                    app.add(e)
                        except Exception as e:
                            acc.violation('C13:sibling-construct:%s' % type(e).__name__, 'cannot build %r: %r' % (case, e), case)
                            continue
                        del LOG[:]
                        res = wsgi.call(app, path, 'GET')
                        acc.evaluated += 1
                        acc.transitions += 1
                        acc.validated += 1
                        acc.add('nontrivial')
                        got = list(LOG)
                        types = [t[2:] for t in got]
                        want_unique = set(t for t in outer_s + a_s + b_s if t != 'V')
                        want_v = sum(1 for t in outer_s + a_s + b_s if t == 'V')
                        acc.outcome('sibling|%s|%s' % (shape, style))
                        prob = None
                        if res.code != 200:
                            prob = ('response', 'answered %s' % res.status)
                        elif sorted(t for t in types if t != 'V') != sorted(want_unique):
                            prob = ('unique-count', 'unique wrapper types ran %r, expected each of %r once' % (types, sorted(want_unique)))
                        elif types.count('V') != want_v:
                            prob = ('non-unique-count', 'non-unique wrappers ran %d times, expected %d' % (types.count('V'), want_v))
                        elif got[:len(outer)] != [m.tag for m in outer]:
                            prob = ('outer-first', 'wrappers ran %r, the embedding application\'s %r must come first' % (got, [m.tag for m in outer]))
                        if prob:
                            acc.violation('C13:sibling-%s:%s:%s' % (prob[0], shape, style), '%s; %r' % (prob[1], case), case)


# ---- (c) RerouteWSGI ---------------------------------------------------------------------------------------

def run_reroute(acc, i, n, tier):
    from clastic import Application, Middleware
    from clastic.application import RerouteWSGI
    seen = {}

    def target_plain(environ, start_response):
        seen['env'] = environ
        start_response('201 Created', [('Content-Type', 'text/x-target'), ('X-Target', 'plain'), ('X-Dup', 'a'), ('X-Dup', 'b')])
        return [b'target body']

    def target_stream(environ, start_response):
        seen['env'] = environ
        start_response('200 OK', [('Content-Type', 'application/octet-stream')])

        def gen():
            for j in range(3):
                yield b'chunk%d' % j
        return gen()

    def target_input(environ, start_response):
        seen['env'] = environ
        data = environ['wsgi.input'].read()
        start_response('200 OK', [('Content-Type', 'text/plain'), ('Content-Length', str(len(data)))])
        return [data]

    def target_env(environ, start_response):
        seen['env'] = environ
        body = ('%s|%s|%s' % (environ.get('PATH_INFO'), environ.get('QUERY_STRING'), environ.get('HTTP_X_CUSTOM'))).encode('latin-1')
        start_response('299 Custom Status', [('Content-Type', 'text/plain')])
        return [body]
    targets = {'plain': (target_plain, '201 Created', b'target body'), 'stream': (target_stream, '200 OK', b'chunk0chunk1chunk2'),
               'input': (target_input, '200 OK', None), 'env': (target_env, '299 Custom Status', None)}
    k = 0
    from werkzeug.wrappers import Request

    class CopyingRequest(Request):
        # an application-supplied request type that works on a private, normalised copy of the environ
        def __init__(self, environ, *a, **kw):
            env = dict(environ)
            env['HTTP_HOST'] = 'normalised.example'
            env.pop('HTTP_X_CUSTOM', None)
            Request.__init__(self, env, *a, **kw)

    class CopyingApp(Application):
        request_type = CopyingRequest
    from clastic.middleware import GzipMiddleware, HTTPCacheMiddleware
    from clastic.middleware.stats import StatsMiddleware
    from clastic.middleware.cookie import SignedCookieMiddleware

    class BundledApp(Application):
        # the stock middlewares in front of the rerouting route: the reroute passes through them untouched
        def __init__(self, routes, middlewares=()):
            Application.__init__(self, routes, middlewares=list(middlewares) + [StatsMiddleware(), GzipMiddleware(),
                                                                                HTTPCacheMiddleware(),
                                                                                SignedCookieMiddleware(secret_key=b'c13')])
    for tname, (target, want_status, want_body) in sorted(targets.items()):
        for how in ('endpoint', 'raised', 'raised-in-middleware'):
          for App in (Application, CopyingApp, BundledApp):
            for method in ('GET', 'POST', 'HEAD'):
                k += 1
                if k % n != i:
                    continue
                if how == 'endpoint':
                    app = App([('/go', RerouteWSGI(target))])
                elif how == 'raised':
                    def ep(target=target):
                        raise RerouteWSGI(target)
                    app = App([('/go', ep)])
                else:
                    class R(Middleware):
                        def request(self, next, request, target=target):
                            raise RerouteWSGI(target)
                    app = App([('/go', lambda: None)], middlewares=[R()])
                body = b'payload-bytes' if method == 'POST' else b''
                env = wsgi.make_environ('/go', method, query='a=1&b=%3F', headers={'X-Custom': 'custom-value'}, body=body)
                before = dict(env)
                seen.clear()
                res = wsgi.call(app, None, environ=env)
                acc.evaluated += 1
                acc.transitions += 1
                acc.validated += 1
                acc.add('nontrivial')
                acc.outcome('reroute|%s|%s|%s' % (tname, how, method))
                case = {'part': 'reroute', 'target': tname, 'how': how, 'method': method,
                        'request_type': 'copying' if App is CopyingApp else ('stock+bundled-middlewares' if App is BundledApp else 'stock')}

                def bad(kind, msg):
                    acc.violation('C13:reroute-%s:%s:%s%s' % (kind, tname, how, ':copying-request-type' if App is CopyingApp else (':bundled-middlewares' if App is BundledApp else '')), '%s; %r -> %s %r' % (msg, case, res.status, res.raised), case)
                if res.raised is not None:
                    bad('raised', 'application raised %r' % (res.raised,))
                    continue
                tenv = seen.get('env')
                if tenv is None:
                    bad('target-not-called', 'the target application was not called')
                    continue
                missing = [key for key in before if key not in tenv or tenv[key] is not before[key] and tenv[key] != before[key]]
                if missing:
                    bad('environ', 'environ entries changed or missing for the target: %r' % missing)
                    continue
                if res.status != want_status:
                    bad('status', 'status %r relayed as %r' % (want_status, res.status))
                    continue
                wb = want_body
                if tname == 'input':
                    wb = body
                elif tname == 'env':
                    wb = b'/go|a=1&b=%3F|custom-value'
                if res.body != wb:
                    bad('body', 'body %r relayed as %r' % (wb, res.body))
                    continue
                if tname == 'plain' and [v for h, v in res.headers if h == 'X-Dup'] != ['a', 'b']:
                    bad('headers', 'headers not relayed verbatim: %r' % (res.headers,))


def nshards(tier):
    return 16


def run_served(acc):
    """The scenario application behind clastic's development server: every (path, method) as a raw connection through
    the server's own request handler (in-memory socket).  What the client reads off the wire is what the application
    answered through WSGI: same status, same body, nothing after the headers for HEAD."""
    from urllib.parse import quote
    tmpdir = tempfile.mkdtemp(prefix='cv13s')
    try:
        for name, content in (('served.txt', b'static text file\n' * 50), ('noext', b'\x00\x01binary'), ('empty', b'')):
            with open(os.path.join(tmpdir, name), 'wb') as f:
                f.write(content)
            os.utime(os.path.join(tmpdir, name), (MTIME, MTIME))
        for variant in ('plain', 'gzip+cache'):
            app = build_scenario(tmpdir, variant)
            server = wsgi.DevServer(app)
            try:
                for path in PATHS:
                    if path.startswith('//') or not path:
                        continue
                    for method in METHODS:
                        body = b'x=1' if method == 'POST' else b''
                        raw = ('%s %s HTTP/1.1\r\nHost: localhost\r\nConnection: close\r\n' % (method, quote(path.encode('utf-8'), safe='/'))).encode('ascii')
                        if body:
                            raw += b'Content-Length: %d\r\nContent-Type: application/x-www-form-urlencoded\r\n' % len(body)
                        raw += b'\r\n' + body
                        acc.evaluated += 1
                        acc.transitions += 2
                        acc.validated += 1
                        case = {'part': 'served', 'variant': variant, 'path': path, 'method': method}
                        direct = wsgi.call(app, path, method, body=body, headers={'Content-Type': 'application/x-www-form-urlencoded'} if body else None)
                        try:
                            code, head, wire = wsgi.dev_server_exchange(server, raw)
                        except Exception as e:
                            acc.violation('C13:served:raised-%s' % type(e).__name__, '%s %s through the development server raised %r' % (method, path, e), case)
                            continue
                        acc.outcome('served|%s|%s' % (variant, code))
                        if direct.raised is not None:
                            continue
                        if code != direct.code:
                            acc.violation('C13:served:status', '%s %s: the client reads status %s off the wire, the application answered %s'
                                          % (method, path, code, direct.status), case)
                        elif method == 'HEAD' and wire:
                            acc.violation('C13:served:head-body', 'HEAD %s: %d bytes follow the headers on the wire' % (path, len(wire)), case)
                        elif method != 'HEAD' and 'transfer-encoding: chunked' not in head.lower() and wire != (direct.body or b'') \
                                and b'Traceback' not in wire and code != 500 and not path.startswith('/meta'):
                            # (the meta pages show the time of day: two renderings differ)
                            acc.violation('C13:served:body', '%s %s: %d body bytes on the wire, the application answered %d'
                                          % (method, path, len(wire), len(direct.body or b'')), case)
            finally:
                server.close()
    finally:
        shutil.rmtree(tmpdir, ignore_errors=True)


EH_HOWS = ('constructor', 'set', 'set-then-add', 'set-twice', 'set-then-reset')


def run_error_handlers(acc):
    """Error handlers that bring a WSGI wrapper of their own (the stock REPLErrorHandler re-raises and relies on its
    debugger wrapper to answer), installed every documented way: each request is still answered through
    start_response, exactly once."""
    import io
    from clastic import Application
    from clastic.errors import REPLErrorHandler, ErrorHandler
    from werkzeug.wrappers import Response

    def boom():
        raise ValueError('boom')
    for how in EH_HOWS:
        routes = [('/boom', boom), ('/ok', lambda: Response('ok'))]
        if how == 'constructor':
            app = Application(routes, error_handler=REPLErrorHandler())
        else:
            app = Application(routes if how != 'set-then-add' else routes[:1])
            app.set_error_handler(REPLErrorHandler())
            if how == 'set-then-add':
                app.add(routes[1])
            if how == 'set-twice':
                app.set_error_handler(ErrorHandler())
                app.set_error_handler(REPLErrorHandler())
            if how == 'set-then-reset':
                app.set_error_handler()
        for path in ('/boom', '/ok', '/nowhere', '/boom'):
            for method in ('GET', 'HEAD'):
                env = wsgi.make_environ(path, method)
                env['wsgi.errors'] = io.StringIO()
                r = call_validated(app, env)
                acc.evaluated += 1
                acc.transitions += 1
                acc.validated += 1
                acc.add('nontrivial')
                acc.outcome('error-handler|%s|%s' % (how, (r['status'] or '???')[:3]))
                case = {'part': 'error-handlers', 'how': how, 'path': path, 'method': method}
                want = {'/boom': '500', '/ok': '200', '/nowhere': '404'}[path]
                if r['error'] or r['sr_calls'] != 1 or (r['status'] or '')[:3] != want:
                    acc.violation('C13:error-handler:%s:%s' % (r['kind'] or 'status', path.strip('/')), 'handler with a WSGI wrapper installed by %s: %s %s -> '
                                  '%s, start_response called %d time(s), %s' % (how, method, path, r['status'], r['sr_calls'], r['error']), case)


def shard(tier, i, n, seed):
    common.setup_repo()
    acc = common.Acc()
    if i == 3 % n:
        run_error_handlers(acc)
    if i == 4 % n:
        run_served(acc)
    run_kinds(acc, i, n, tier)
    run_wrappers(acc, i, n, tier)
    run_sibling_wrappers(acc, i, n, tier)
    run_reroute(acc, i, n, tier)
    return acc


def finish(tier, merged, results):
    oc = merged['outcomes']
    if not merged['violations']:
        for need in ('kinds|', 'wrappers|', 'reroute|'):
            if not any(k.startswith(need) for k in oc):
                raise common.InternalError('vacuous: part %s missing' % need)
    return {'bounds': {'variants': ['plain', 'gzip', 'cache', 'debug', 'gzip+cache'], 'paths': PATHS, 'methods': METHODS,
                       'header_sets': [h for h, _ in header_sets()], 'wrapper_stack_len': 3 if tier == 'quick' else 4,
                       'reroute_targets': ['plain', 'stream', 'input', 'env']},
            'distinct_nontrivial': merged['extra'].get('nontrivial', 0)}


def replay(case):
    common.setup_repo()
    acc = common.Acc()
    if case.get('part') == 'served':
        run_served(acc)
        bad = [v for v in acc.violations if v['case'] == case]
        return (False, bad[0]['desc'][:2000]) if bad else (True, 'ok')
    if case.get('part') == 'error-handlers':
        run_error_handlers(acc)
        bad = [v for v in acc.violations if v['case'] == case]
        return (False, bad[0]['desc'][:2000]) if bad else (True, 'ok')
    part = case.get('part')
    if part == 'kinds':
        run_kinds(acc, 0, 1, 'quick')
        vs = [v for v in acc.violations if all(v['case'].get(k) == case.get(k) for k in ('variant', 'path', 'method', 'headers'))]
    elif part == 'sibling-wrappers':
        run_sibling_wrappers(acc, 0, 1, 'quick')
        vs = [v for v in acc.violations if all(v['case'].get(k) == case.get(k) for k in ('outer', 'a', 'b', 'shape', 'style'))]
    elif part == 'wrappers':
        run_wrappers(acc, 0, 1, 'quick' if len(case['outer']) <= 3 and len(case['inner']) <= 2 else 'thorough')
        vs = [v for v in acc.violations if all(v['case'].get(k) == case.get(k) for k in ('outer', 'inner', 'embedded', 'style'))]
    else:
        run_reroute(acc, 0, 1, 'quick')
        vs = [v for v in acc.violations if all(v['case'].get(k) == case.get(k) for k in ('target', 'how', 'method'))]
    if vs:
        return False, vs[0]['desc'][:1500]
    return True, 'ok'
