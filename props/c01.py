# -*- coding: utf-8 -*-
"""C01 - the bind-time dependency check is sound and complete.

Layered, complete enumeration of route configurations (see DESIGN.md); every
configuration is built with the real Application/Route/Middleware classes,
the accept/reject outcome is compared with ref/bind.py, and every accepted
configuration is exercised with one request per route kind (hit, 404, 405)
under a re-raising error handler so that any framework call with a missing or
unexpected argument surfaces.
"""
import itertools
import os
import time
import traceback

from mc import common, chain
from ref import bind as B

ID = 'C01'
LEVEL = 'model_checking'
BUDGET = {'quick': 420, 'thorough': 3300}
RULE = ('configurations are enumerated layer by layer as complete products (L1a stack arithmetic for one name, L1b long '
        'chains, L1c parameter kinds x callable kinds, L2 two names, LB built-in names); one evaluation = one '
        'configuration (construction + up to 3 requests); non-trivial = the name is required by at least one function; '
        'distinct = distinct (layer, expected verdict, observed outcome) classes')
ASSUMPTIONS = ['ref/bind.py is the trusted reading of the statement (phase-scoped availability)',
               'configurations whose provided names depend on each other cyclically may be accepted or rejected',
               'a function with a positional-only parameter may be rejected at construction (it cannot be supplied by '
               'name) or accepted and then served correctly']

NAMES = ('a', 'b')
PHASES = B.PHASES
PROVIDES_ATTR = B.PROVIDES_ATTR
KINDS = ('func', 'lambda', 'method', 'callable', 'static', 'classm', 'decorated', 'wrapped')
ROLES6 = ('req', 'def', 'kwreq', 'kwdef', 'pos')


def deadline_passed():
    d = os.environ.get('VERIF_DEADLINE')
    return bool(d) and time.time() > float(d)


def fspec(role_by_name, extra=()):
    ps = [[n, r] for n, r in role_by_name if r not in (None, '-')]
    ps += [list(e) for e in extra]
    return {'params': ps}


def sources(m, names=('a',)):
    yield ('none',)
    yield ('url',)
    yield ('app_res',)
    yield ('route_res',)
    for i in range(m):
        for ph in PHASES:
            yield ('mw', i, ph)


def apply_source(cfg, name, src):
    if src[0] == 'url':
        cfg['url'].append(name)
    elif src[0] == 'app_res':
        cfg['app_res'].append(name)
    elif src[0] == 'route_res':
        cfg['route_res'].append(name)
    elif src[0] == 'mw':
        cfg['mws'][src[1]].setdefault(PROVIDES_ATTR[src[2]], []).append(name)


def empty_cfg():
    return {'mws': [], 'endpoint': {'params': []}, 'render': None, 'url': [], 'app_res': [], 'route_res': []}


# ---- L1a: stack arithmetic, one name ------------------------------------------

PHASE_OPTS = (None, '-', 'req', 'def')


def mw_options(one_phase_only):
    out = []
    for level in ('app', 'route'):
        for roles in itertools.product(PHASE_OPTS, repeat=3):
            if one_phase_only and sum(r is not None for r in roles) > 1:
                continue
            out.append((level, roles))
    return out


def gen_L1a(m, one_phase_only):
    opts = mw_options(one_phase_only)
    for mws in itertools.product(opts, repeat=m):
        for ep_role in ('-', 'req', 'def'):
            for rn_role in (None, '-', 'req', 'def'):
                for src in sources(m):
                    cfg = empty_cfg()
                    for i, (level, roles) in enumerate(mws):
                        mw = {'level': level, 'type': 'T%d' % i}
                        for ph, r in zip(PHASES, roles):
                            mw[ph] = None if r is None else fspec([('a', r)])
                        cfg['mws'].append(mw)
                    cfg['endpoint'] = fspec([('a', ep_role)])
                    cfg['render'] = None if rn_role is None else fspec([('a', rn_role)], [('context', 'req')])
                    apply_source(cfg, 'a', src)
                    yield cfg


# ---- L1b: long chains ---------------------------------------------------------------

def gen_L1b(m):
    # all middlewares at one level, each with at most one phase function
    per = [(None, None)] + [(ph, r) for ph in PHASES for r in ('-', 'req', 'def')]
    if m >= 4:
        per = [(None, None)] + [(ph, r) for ph in PHASES for r in ('req', 'def')]
    for level in ('app', 'route'):
        for choice in itertools.product(per, repeat=m):
            for ep_role in ('req', 'def'):
                for src in [('none',), ('url',), ('app_res',)] + [('mw', i, ph) for i in range(m) for ph in PHASES
                                                                   if choice[i][0] == ph]:
                    cfg = empty_cfg()
                    for i, (ph, r) in enumerate(choice):
                        mw = {'level': level, 'type': 'T%d' % i}
                        if ph:
                            mw[ph] = fspec([('a', r)])
                        cfg['mws'].append(mw)
                    cfg['endpoint'] = fspec([('a', ep_role)])
                    cfg['render'] = fspec([('a', 'def')], [('context', 'req')])
                    apply_source(cfg, 'a', src)
                    yield cfg


# ---- L1c: parameter kinds x callable kinds ----------------------------------------------

def gen_L1c():
    positions = ['ep', 'rn', 'm.request', 'm.endpoint', 'm.render']
    for pos in positions:
        for role in ROLES6:
            for ep_kind in KINDS:
                for rn_kind in KINDS:
                    for level in ('app', 'route'):
                        for src in (('none',), ('url',), ('app_res',), ('mw', 0, 'request')):
                            if pos.startswith('m.') is False and level == 'route' and src[0] != 'mw':
                                pass
                            cfg = empty_cfg()
                            mw = {'level': level, 'type': 'T0', 'request': fspec([])}
                            if pos.startswith('m.'):
                                mw[pos[2:]] = fspec([('a', role)])
                            cfg['mws'].append(mw)
                            cfg['endpoint'] = fspec([('a', role)] if pos == 'ep' else [])
                            cfg['endpoint']['kind'] = ep_kind
                            cfg['render'] = fspec([('a', role)] if pos == 'rn' else [], [('context', 'req')])
                            cfg['render']['kind'] = rn_kind
                            apply_source(cfg, 'a', src)
                            yield cfg


# ---- L2: two names ---------------------------------------------------------------------------

def gen_L2(m):
    roles = ('-', 'req', 'def')
    per = [(level, ph, ra, rb) for level in ('app', 'route') for ph in (None,) + PHASES
           for ra in roles for rb in roles if ph is not None or (ra == '-' and rb == '-')]
    srcs = list(sources(m))
    for mws in itertools.product(per, repeat=m):
        for epa, epb in itertools.product(roles, repeat=2):
            for sa in srcs:
                for sb in srcs:
                    if sa[0] in ('url', 'app_res', 'route_res') and sb[0] not in ('none', 'mw') and sa[0] != sb[0]:
                        continue   # keep the space small: non-middleware sources paired only with none/mw/same kind
                    for order in ((0, 1), (1, 0)):
                        if order == (1, 0) and not (sa[0] == 'mw' and sa == sb):
                            continue
                        for call in (('kw', 'pos') if (sa[0] == 'mw' and sa == sb) else ('kw',)):
                            cfg = empty_cfg()
                            for i, (level, ph, ra, rb) in enumerate(mws):
                                mw = {'level': level, 'type': 'T%d' % i, 'call': call}
                                if ph:
                                    mw[ph] = fspec([('a', ra), ('b', rb)])
                                cfg['mws'].append(mw)
                            cfg['endpoint'] = fspec([('a', epa), ('b', epb)])
                            cfg['render'] = fspec([('a', 'def'), ('b', 'def')], [('context', 'req')])
                            pair = [('a', sa), ('b', sb)]
                            for k in order:
                                apply_source(cfg, pair[k][0], pair[k][1])
                            yield cfg


# ---- LB: built-in names as parameters -------------------------------------------------------------

def gen_LB():
    bnames = list(B.REQUEST_BUILTINS)
    for level in ('app', 'route'):
        for ph in PHASES:
            for subset in itertools.product((None, 'req', 'def'), repeat=len(bnames)):
                for ep_sub in ((), ('request',), tuple(bnames)):
                    for rn_ctx in ('req', 'def'):
                        cfg = empty_cfg()
                        mw = {'level': level, 'type': 'T0'}
                        mw[ph] = fspec([(n, r) for n, r in zip(bnames, subset)])
                        cfg['mws'].append(mw)
                        cfg['endpoint'] = fspec([(n, 'req') for n in ep_sub])
                        cfg['render'] = fspec([('context', rn_ctx), ('request', 'def'), ('_route', 'req')])
                        yield cfg


def gen_LC():
    """`context` as a parameter at every position of the chain (only the render phase may require it)."""
    for level in ('app', 'route'):
        for ph in PHASES:
            for role in ('req', 'def', 'kwreq', 'kwdef'):
                for with_render in (False, True):
                    cfg = empty_cfg()
                    mw = {'level': level, 'type': 'T0'}
                    mw[ph] = fspec([('context', role)])
                    cfg['mws'].append(mw)
                    cfg['endpoint'] = fspec([])
                    cfg['render'] = fspec([('context', 'req')]) if with_render else None
                    yield cfg
    for role in ('req', 'def', 'kwreq', 'kwdef'):
        for with_render in (False, True):
            for mwlevel in (None, 'app'):
                cfg = empty_cfg()
                if mwlevel:
                    cfg['mws'].append({'level': mwlevel, 'type': 'T0', 'request': fspec([]), 'endpoint': fspec([])})
                cfg['endpoint'] = fspec([('context', role)])
                cfg['render'] = fspec([('context', 'def')]) if with_render else None
                yield cfg
                cfg = empty_cfg()
                if mwlevel:
                    cfg['mws'].append({'level': mwlevel, 'type': 'T0', 'render': fspec([('context', 'def')])})
                cfg['endpoint'] = fspec([])
                cfg['render'] = fspec([('context', role)])
                yield cfg


def gen_LP():
    """Two unique middlewares whose classes are parent and child - different types all the same: both stay in the
    stack, so what either provides is available."""
    for lv0, lv1 in (('app', 'route'), ('app', 'app'), ('route', 'route'), ('outer', 'app'), ('outer', 'route')):
        for ph in PHASES:
            for child_first in (False, True):
                for provider in (0, 1):
                    for role in ('req', 'def'):
                        cfg = empty_cfg()
                        a = {'level': lv0, 'type': 'A', ph: fspec([])}
                        b = {'level': lv1, 'type': 'As', 'parent': 'A', ph: fspec([])}
                        mws = [b, a] if child_first else [a, b]
                        mws[0]['level'], mws[1]['level'] = lv0, lv1
                        mws[provider][PROVIDES_ATTR[ph]] = ['a']
                        cfg['mws'] = mws
                        if ph == 'render':
                            cfg['endpoint'] = fspec([])
                            cfg['render'] = fspec([('a', role)], [('context', 'req')])
                        else:
                            cfg['endpoint'] = fspec([('a', role)])
                            cfg['render'] = None
                        if 'outer' in (lv0, lv1):
                            cfg['embedded'] = True
                            cfg['outer_res'] = []
                        yield cfg


def gen_LS():
    """Strict slash mode, a leaf pattern made only of an optional binding: '/' is the empty assignment and the
    binding is then supplied as None."""
    for cfg in gen_L1a(1, False):
        if cfg['url'] != ['a']:
            continue
        cfg['url_optional'] = True
        cfg['slash_mode'] = 'strict'
        yield cfg


def gen_LE(m):
    """The L1a configurations again, but with the application embedded in an outer application (resources of
    the embedded application must still reach its routes)."""
    for cfg in gen_L1a(m, True):
        cfg['embedded'] = True
        cfg['outer_res'] = []
        yield cfg
        if not (cfg['url'] or cfg['app_res'] or cfg['route_res'] or any(m.get(PROVIDES_ATTR[ph]) for m in cfg['mws'] for ph in PHASES)):
            # source 'none' again, but now the *embedding prefix* binds the name
            import copy
            c2 = copy.deepcopy(cfg)
            c2['prefix_url'] = ['a']
            yield c2


def check_bundled_providers(acc, prop='C01'):
    """The bundled middlewares that provide names, with non-default names and several fields: a route whose endpoint
    requires the names is accepted and receives each field's own value; a route that takes none of them works too."""
    from clastic import Application, Route, POST
    from clastic.middleware.url import GetParamMiddleware, ScriptRootMiddleware
    from clastic.middleware.form import PostDataMiddleware
    from clastic.middleware.cookie import SignedCookieMiddleware
    from werkzeug.wrappers import Response
    from mc import wsgi
    seen = {}

    def mk(names):
        ns = {'seen': seen, 'Response': Response}
        exec('def ep(%s):\n    seen.update(%s)\n    return Response("ok")\n'
             % (', '.join(names), '{' + ', '.join('%r: %s' % (n, n) for n in names) + '}'), ns)
        return ns['ep']
    cases = [
        ('getparam', lambda: GetParamMiddleware(['qa', 'qb', 'qc']), ['qa', 'qb', 'qc'], 'GET', 'qa=1&qb=2&qc=3', b'',
         {'qa': '1', 'qb': '2', 'qc': '3'}),
        ('getparam-typed', lambda: GetParamMiddleware({'qa': int, 'qb': str}), ['qa', 'qb'], 'GET', 'qa=7&qb=x', b'',
         {'qa': 7, 'qb': 'x'}),
        ('postdata', lambda: PostDataMiddleware({'fa': str, 'fb': str, 'fc': int}), ['fa', 'fb', 'fc'], 'POST', '',
         b'fa=1&fb=2&fc=3', {'fa': '1', 'fb': '2', 'fc': 3}),
        ('postdata-list', lambda: PostDataMiddleware(['fa', 'fb']), ['fa', 'fb'], 'POST', '', b'fa=x&fb=y', {'fa': 'x', 'fb': 'y'}),
        ('cookie-named', lambda: SignedCookieMiddleware(secret_key=b'k', arg_name='session'), ['session'], 'GET', '', b'', None),
        # every documented way of naming the parameters: one string, a generator, a tuple, a set of one
        ('getparam-string', lambda: GetParamMiddleware('qword'), ['qword'], 'GET', 'qword=w', b'', {'qword': 'w'}),
        ('getparam-generator', lambda: GetParamMiddleware(n for n in ['qa', 'qb']), ['qa', 'qb'], 'GET', 'qa=1&qb=2', b'',
         {'qa': '1', 'qb': '2'}),
        ('getparam-tuple-dup', lambda: GetParamMiddleware(('qa', 'qb', 'qa')), ['qa', 'qb'], 'GET', 'qa=1&qb=2', b'',
         {'qa': '1', 'qb': '2'}),
        ('postdata-string', lambda: PostDataMiddleware('fword'), ['fword'], 'POST', '', b'fword=w', {'fword': 'w'}),
        ('postdata-generator', lambda: PostDataMiddleware(n for n in ['fa', 'fb']), ['fa', 'fb'], 'POST', '', b'fa=x&fb=y',
         {'fa': 'x', 'fb': 'y'}),
        ('scriptroot-named', lambda: ScriptRootMiddleware('mount'), ['mount'], 'GET', '', b'', {'mount': ''}),
    ]
    for label, mkmw, names, method, query, body, want in cases:
        for level in ('app', 'route'):
            for takes in ('all', 'first', 'none'):
                taken = {'all': names, 'first': names[:1], 'none': []}[takes]
                acc.evaluated += 1
                acc.transitions += 1
                acc.validated += 1
                acc.add('nontrivial')
                case = {'layer': 'bundled-providers', 'label': label, 'level': level, 'takes': takes}
                seen.clear()
                try:
                    mw = mkmw()
                    rt = Route('/r', mk(taken), methods=[method], middlewares=[mw] if level == 'route' else [])
                    app = Application([rt], middlewares=[mw] if level == 'app' else [])
                except Exception as e:
                    acc.violation('%s:bundled-provider-rejected:%s' % (prop, label), 'satisfiable configuration (%s at %s level, endpoint '
                                  'takes %r) rejected with %r' % (label, level, taken, e), case)
                    continue
                hdrs = {'Content-Type': 'application/x-www-form-urlencoded'} if body else None
                # the request also carries parameters / form fields nobody declared (a submit button, a tracking tag)
                res = wsgi.call(app, '/r', method, query=(query + '&' if query else '') + 'utm_zq=1&submit=go', headers=hdrs,
                                body=(body + b'&submit=go&csrf_zq=t') if body else body)
                acc.outcome('bundled-providers:%s' % label)
                if res.raised is not None or res.code != 200:
                    acc.violation('%s:bundled-provider-request-failed:%s' % (prop, label), '%s at %s level, endpoint takes %r: answered '
                                  '%s %r' % (label, level, taken, res.status, res.raised), case)
                    continue
                if want is not None:
                    exp = dict((n, want[n]) for n in taken)
                    if seen != exp or any(type(seen[n]) is not type(exp[n]) for n in exp):
                        acc.violation('%s:bundled-provider-values:%s' % (prop, label), '%s handed over %r, the request says %r'
                                      % (label, dict(seen), exp), case)
                elif taken and type(seen.get('session')).__name__ != 'JSONCookie':
                    acc.violation('%s:bundled-provider-values:%s' % (prop, label), 'the cookie argument is %r' % (seen,), case)


def layers(tier):
    if tier == 'quick':
        return [('L1a-0', lambda: gen_L1a(0, False)), ('L1a-1', lambda: gen_L1a(1, False)),
                ('L1a-2r', lambda: gen_L1a(2, True)), ('L1c', gen_L1c), ('L2-1', lambda: gen_L2(1)),
                ('LB', gen_LB), ('LC', gen_LC), ('LE-1', lambda: gen_LE(1)), ('LS', gen_LS), ('LP', gen_LP)]
    return [('L1a-0', lambda: gen_L1a(0, False)), ('L1a-1', lambda: gen_L1a(1, False)),
            ('L1a-2', lambda: gen_L1a(2, False)), ('L1b-3', lambda: gen_L1b(3)), ('L1b-4', lambda: gen_L1b(4)),
            ('L1c', gen_L1c), ('L2-1', lambda: gen_L2(1)), ('L2-2', lambda: gen_L2(2)), ('LB', gen_LB), ('LC', gen_LC),
            ('LE-1', lambda: gen_LE(1)), ('LE-2', lambda: gen_LE(2)), ('LS', gen_LS), ('LP', gen_LP)]


def cfg_roles(cfg):
    rs = set()
    fs = [cfg['endpoint'], cfg.get('render')]
    for m in cfg['mws']:
        fs += [m.get(ph) for ph in PHASES]
    for f in fs:
        if f:
            rs.update(p[1] for p in f['params'])
    return rs


def special_roles(cfg):
    s = sorted(cfg_roles(cfg) & set(['kwreq', 'kwdef', 'pos']))
    return '+'.join(s) or 'plain'


def innermost_clastic_frame(exc):
    tb = traceback.extract_tb(exc.__traceback__)
    site = 'unknown'
    for fr in tb:
        fn = fr.filename
        if '/clastic/' in fn and '/tests/' not in fn:
            site = '%s:%s' % (os.path.basename(fn), fr.name)
        elif fn.startswith('<sinter generated'):
            site = 'generated:%s' % fr.name
    return site


def check_config(acc, h, cfg, layer, reraise_handler):
    if not cfg.get('prefix_url'):
        cfg = dict(cfg, sibling=True)     # a plain route bound afterwards: accepted whenever the configuration is
    info = B.analyse_all(cfg)
    acc.evaluated += 1
    acc.transitions += 1
    acc.validated += 1
    try:
        app = h.build(cfg, error_handler=reraise_handler(), construct=('list', 'add', 'bind')[acc.evaluated % 3])
        got, exc = 'accept', None
    except Exception as e:
        got, exc = 'reject', e
    verdict = info['verdict']
    acc.outcome('%s:%s->%s' % (layer, verdict, got if exc is None else 'reject:' + type(exc).__name__))
    if any(r in ('req', 'kwreq', 'pos') for r in cfg_roles(cfg)):
        acc.add('nontrivial')
    case = {'cfg': cfg, 'layer': layer, 'construct': ('list', 'add', 'bind')[acc.evaluated % 3]}
    if got == 'reject':
        name = type(exc).__name__
        if verdict == 'accept':
            if info['posonly'] and name in ('NameError', 'TypeError'):
                return
            acc.violation('C01:rejected-satisfiable:%s:%s' % (name, special_roles(cfg)),
                          'satisfiable configuration rejected with %r' % (exc,), case)
        elif verdict == 'reject' and name not in info['exc'] and not (info['posonly'] and name == 'TypeError'):
            acc.violation('C01:wrong-exception:%s' % name,
                          'unsatisfiable configuration (%s) rejected with %r instead of %r' % (info['why'], exc, info['exc']),
                          case)
        return
    if verdict == 'reject':
        acc.violation('C01:accepted-unsatisfiable:%s' % special_roles(cfg),
                      'configuration accepted although %s' % info['why'], case)
        return
    # accepted: no request may fail because of how the framework calls the functions
    reqs = [('hit', h.path, 'GET', 200), ('404', '/zz/zz', 'GET', 404), ('405', h.path, 'POST', 405)]
    if cfg.get('sibling'):
        reqs.append(('sibling', '/sib', 'GET', 200))
    if h.path_absent:
        reqs.append(('hit-absent', h.path_absent, 'GET', 200))
    for what, path, method, want in reqs:
        res, trace = chain.run_request(h, path, method)
        acc.transitions += 1
        if res.raised is not None:
            e = res.raised
            acc.violation('C01:request-failed:%s:%s:%s:%s' % (what, type(e).__name__, innermost_clastic_frame(e),
                                                             special_roles(cfg)),
                          'accepted configuration fails at request time (%s %s): %r' % (method, path, e),
                          dict(case, request=[path, method]))
            return
        if res.code != want:
            acc.violation('C01:request-status:%s:%s' % (what, res.code),
                          'accepted configuration answered %s for %s %s (expected %d)' % (res.status, method, path, want),
                          dict(case, request=[path, method]))
            return


def nshards(tier):
    return 32 if tier == 'quick' else 64


def reraiser():
    from clastic.errors import ErrorHandler
    return ErrorHandler(reraise_uncaught=True)


def shard(tier, i, n, seed):
    common.setup_repo()
    acc = common.Acc()
    h = chain.Harness()
    k = 0
    for name, gen in layers(tier):
        for cfg in gen():
            k += 1
            if k % n != i:
                continue
            if k % 256 == i and deadline_passed():
                acc.extra['cap_hit'] = 1
                return acc
            check_config(acc, h, cfg, name, reraiser)
            if k % 20011 == i:
                acc.sample({'layer': name, 'cfg': cfg})
    if i == 5 % n:
        check_bundled_providers(acc, 'C01')
    return acc


BUNDLED_ITEMS = 11 * 2 * 3


def space_size(tier):
    return sum(sum(1 for _ in gen()) for name, gen in layers(tier))


def finish(tier, merged, results):
    oc = merged['outcomes']
    if not merged['violations']:
        if not any('accept->accept' in k for k in oc) or not any('reject->reject:NameError' in k for k in oc):
            raise common.InternalError('vacuous: accept/reject outcomes missing')
        if not any(k.split(':')[1].startswith('either') for k in oc):
            raise common.InternalError('vacuous: no cyclic configuration enumerated')
    sizes = dict((name, sum(1 for _ in gen())) for name, gen in layers(tier))
    sizes['bundled-providers'] = BUNDLED_ITEMS
    return {'space_size': sum(sizes.values()), 'bounds': {'layers': sizes},
            'distinct_nontrivial': merged['extra'].get('nontrivial', 0),
            'coverage': {'note': 'distinct_nontrivial = configurations in which some function requires the name '
                                 '(configurations are pairwise distinct by construction)',
                         'not_covered': 'three or more middlewares that each have several phase functions; more than '
                                        'two injectable names'}}


def replay(case):
    common.setup_repo()
    acc = common.Acc()
    h = chain.Harness()
    if case.get('layer') == 'bundled-providers':
        check_bundled_providers(acc, 'C01')
        return (False, acc.violations[0]['desc']) if acc.violations else (True, 'ok')
    acc.evaluated = {'list': 2, 'add': 0, 'bind': 1}.get(case.get('construct', 'list'), 2)
    check_config(acc, h, case['cfg'], case.get('layer', 'replay'), reraiser)
    if acc.violations:
        return False, acc.violations[0]['desc']
    return True, 'ok'
