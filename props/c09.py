# -*- coding: utf-8 -*-
"""C09 - error responses: right status, negotiated format, everything escaped.

Complete product of (error class, field overrides with hostile payloads) x
(Accept header catalogue) x (default / contextual handler) on the real
application.  Oracles: status; format acceptable per ref/negotiate.py;
Content-Type agrees with the body; JSON parses and carries the fields; XML
parses (when representable) and carries the fields; HTML is tokenised and
its tag/attribute skeleton must be identical to the skeleton obtained with a
neutral payload (differential structure oracle), the sentinel tag/attribute
names never occur, and the payload text is present verbatim.
"""
import html.parser
import json
import os
import time
import urllib.parse
import xml.etree.ElementTree as ET

from mc import common, wsgi
from ref import negotiate as N

ID = 'C09'
LEVEL = 'model_checking'
BUDGET = {'quick': 420, 'thorough': 2400}
RULE = ('(error class, overridden field, payload) x Accept x handler enumerated completely; one evaluation = one error '
        'response; non-trivial = the payload contains markup/quote/template characters; distinct = distinct (format, '
        'field, payload, handler) classes')
ASSUMPTIONS = ['ref/negotiate.py (RFC 7231 quality of the most specific media range); ties and absent/malformed Accept '
               'allow any supported format', 'html.parser / json / xml.etree are trusted parsers',
               'XML well-formedness only for payloads XML 1.0 can represent']

PAYLOADS = {
    'plain': 'plain text',
    'tag': '<zq9x a="1">',
    'quotes': '"\'&',
    'fmt': '{0} {detail} {{ {code.__class__}',
    'dust': '{#x}{/x}{@y/}{>p/}{~lb}',
    'nonascii': u'\xe9中',
    'ctrl': 'a\x01b\x0bc',
    'cdata': ']]><![CDATA[',
    'attr': 'http://x/"onmouseover="zq9y',
    'script': '</script><script>zq9z()</script>',
    'amp': '&lt;b&gt; &amp;amp; &#x41;',
    'surrdc': u'file caf\udce9.txt',       # what os.fsdecode() makes of undecodable file-name bytes
    'surrd8': u'half \ud83d pair',
    'long': u'<zq9l> long detail, compresses well ' * 120,
    'latin': u'caf\xe9 cr\xe8me <zq9m>',
}
SURROGATE = ('surrdc', 'surrd8')
NEUTRAL = {'attr': 'http://x/neutral'}
ACCEPTS = [None, '', 'text/html', 'application/json', 'text/plain', 'application/xml', '*/*', 'text/*', 'application/*',
           'text/html;q=0.5, application/json;q=0.9', 'text/html;q=0, */*;q=0.5', 'application/xml;q=0.1, */*;q=0.9',
           'application/json;q=0, text/*;q=0.4', 'image/png', 'image/png, text/csv;q=0.2', ';;;', 'text/html;q=abc',
           'text', '*/*;q=0', 'text/html;q=0',
           'text/plain;q=0, text/html;q=0, application/json;q=0, application/xml;q=0',
           'text/html,application/xhtml+xml,application/xml;q=0.9,*/*;q=0.8',
           'application/json;q=0.5, application/xml;q=0.5', 'text/plain;q=0.2, application/xml;q=0.3',
           'TEXT/HTML', 'application/json ; q=0.3 , text/html ; q=0.2']
ACCEPTS_SHORT = [None, 'text/html', 'application/json', 'application/xml', 'text/plain', 'text/html;q=0, */*;q=0.5']
CT = {'html': 'text/html', 'json': 'application/json', 'text': 'text/plain', 'xml': 'application/xml'}


def deadline_passed():
    d = os.environ.get('VERIF_DEADLINE')
    return bool(d) and time.time() > float(d)


def neutral_for(pkey):
    return NEUTRAL.get(pkey, 'neutral')


def xml_ok(s):
    return all(c in '\t\n\r' or (0x20 <= ord(c) <= 0xD7FF) or (0xE000 <= ord(c) <= 0xFFFD) or ord(c) >= 0x10000 for c in s)


class Skel(html.parser.HTMLParser):
    def __init__(self):
        html.parser.HTMLParser.__init__(self, convert_charrefs=True)
        self.events = []
        self.text = []
        self.attrvals = []

    def handle_starttag(self, tag, attrs):
        self.events.append(('s', tag, tuple(sorted(k for k, v in attrs))))
        self.attrvals.extend(v for k, v in attrs if v)

    def handle_endtag(self, tag):
        self.events.append(('e', tag))

    def handle_startendtag(self, tag, attrs):
        self.handle_starttag(tag, attrs)

    def handle_data(self, data):
        self.text.append(data)

    def handle_comment(self, data):
        self.events.append(('c',))

    def handle_decl(self, decl):
        self.events.append(('d',))

    def handle_pi(self, data):
        self.events.append(('pi',))

    def unknown_decl(self, data):
        self.events.append(('ud',))


def skeleton(body):
    p = Skel()
    p.feed(body.decode('utf-8', 'replace'))
    p.close()
    return p


def http_classes():
    from clastic import errors
    out = []
    for k, v in sorted(vars(errors).items()):
        try:
            if issubclass(v, errors.HTTPException) and v.code and not k.startswith('Contextual'):
                out.append(k)
        except TypeError:
            pass
    return out


class Apps(object):
    def __init__(self):
        from clastic import Application, errors
        from werkzeug.wrappers import Response
        self.errors = errors
        self.spec = None
        outer = self

        def raiser():
            cname, kw, how = outer.spec
            e = (outer.extra_classes.get(cname) or getattr(errors, cname))(**kw)
            if how == 'return':
                return e
            raise e

        def boom(request):
            local_payload = outer.local
            unused = [local_payload, request]
            raise ValueError(outer.message)
        self.local = 'x'
        self.message = 'x'
        def boomp(request, rest):
            raise ValueError(outer.message)
        from clastic import render_basic
        routes = [('/err', raiser), ('/boom', boom), ('/ok', lambda: Response('ok')), ('/boomp/<rest*>', boomp)]

        self.app = {'default': Application(routes), 'debug': Application(routes, debug=True)}
        # the same failing endpoint on a route that has a render function: an error it returns is still the response
        self.app['rendered'] = Application([('/err', raiser, render_basic)])
        # a route added with rebind_render_error=False and no render_error of its own
        from clastic import Route
        from clastic.middleware import GzipMiddleware
        self.app['gzip'] = Application(routes, middlewares=[GzipMiddleware()])

        class ForbiddenLatin1(errors.Forbidden):
            charset = 'iso-8859-1'        # an error type that talks latin-1

        class NotFoundUtf16(errors.NotFound):
            charset = 'utf-16'
        errors_ns = {'ForbiddenLatin1': ForbiddenLatin1, 'NotFoundUtf16': NotFoundUtf16}
        self.extra_classes = errors_ns
        from clastic.middleware.form import PostDataMiddleware
        from clastic import POST
        # a form route behind the stock extraction middleware (asked with a body that ends before its Content-Length)
        self.app['postdata'] = Application([POST('/form', lambda a: Response('a=%r' % (a,)))], middlewares=[PostDataMiddleware(['a'])])
        self.app['postdata-debug'] = Application([POST('/form', lambda a: Response('a=%r' % (a,)))], middlewares=[PostDataMiddleware(['a'])], debug=True)
        nr = Application([('/ok', lambda: Response('ok'))])
        nr.add(Route('/err', raiser), rebind_render_error=False)
        self.app['norebind'] = nr


def client_view(res):
    """Undo the declared content coding and re-encode the body from the declared charset to utf-8 (in place).
    Returns None or (kind, message)."""
    enc = (res.header('Content-Encoding') or '').strip().lower() if res.headers else ''
    if enc:
        import gzip as _gz
        try:
            if enc != 'gzip':
                raise ValueError('unknown coding %r' % enc)
            res.body = _gz.decompress(res.body or b'')
        except Exception as e:
            return ('content-encoding', 'body is not what Content-Encoding %r says: %s' % (enc, e))
    cs = 'utf-8'
    for part in ((res.header('Content-Type') or '') if res.headers else '').split(';')[1:]:
        k_, _, v_ = part.strip().partition('=')
        if k_.lower() == 'charset' and v_:
            cs = v_.strip('"')
    if cs.lower().replace('_', '-') not in ('utf-8', 'utf8'):
        try:
            res.body = (res.body or b'').decode(cs).encode('utf-8', 'surrogatepass')
        except Exception as e:
            return ('charset', 'body does not decode under the declared charset %r: %s' % (cs, e))
    return None


def fmt_of(res):
    ct = (res.header('Content-Type') or '').split(';')[0].strip().lower()
    for f, m in CT.items():
        if ct == m:
            return f
    return None


def check_body(acc, bad, res, fmt, fields, neutral_body, pkey, payload, carrier, strict_fields=True):
    """fields: expected values of code/message/detail/error_type (None = not checked)."""
    body = res.body
    try:
        text = body.decode('utf-8')
    except UnicodeDecodeError:
        bad('body-not-utf8', 'body is not valid utf-8')
        return
    if fmt == 'json':
        try:
            d = json.loads(text)
        except ValueError as e:
            bad('json-invalid', 'JSON body does not parse: %s' % e)
            return
        if not isinstance(d, dict):
            bad('json-shape', 'JSON body is not an object')
            return
        for k, v in fields.items():
            if k not in d:
                bad('json-missing-%s' % k, 'JSON body lacks %r' % k)
            elif strict_fields and v is not None and d[k] != v:
                bad('json-field-%s' % k, 'JSON %s is %r, expected %r' % (k, d[k], v))
    elif fmt == 'xml':
        if not xml_ok(payload):
            return
        try:
            root = ET.fromstring(body)
        except ET.ParseError as e:
            bad('xml-malformed', 'XML body is not well formed: %s' % e)
            return
        for k, v in fields.items():
            el = root.find(k)
            if el is None:
                bad('xml-missing-%s' % k, 'XML lacks <%s>' % k)
            elif strict_fields and v is not None and (el.text or '') != ('' if v is None else str(v)) and len(list(el)) == 0:
                bad('xml-field-%s' % k, 'XML %s is %r, expected %r' % (k, el.text, v))
            elif len(list(el)) != 0:
                bad('xml-injected-element', 'XML <%s> has child elements' % k)
        if [c.tag for c in root] != ['code', 'message', 'detail', 'error_type'] or root.tag != 'http_error':
            bad('xml-structure', 'XML structure is %r' % [c.tag for c in root])
    elif fmt == 'html':
        low = text.lstrip().lower()
        if not (low.startswith('<!doctype html') or low.startswith('<html')):
            bad('html-not-document', 'text/html body does not look like an HTML document')
            return
        sk = skeleton(body)
        for ev in sk.events:
            if ev[0] == 's' and (ev[1].startswith('zq9') or any(a.startswith('zq9') or a == 'onmouseover' for a in ev[2])):
                bad('html-injected-markup', 'payload introduced markup: %r' % (ev,))
                return
        if neutral_body is not None:
            nk = skeleton(neutral_body)
            if nk.events != sk.events:
                k = 0
                while k < min(len(nk.events), len(sk.events)) and nk.events[k] == sk.events[k]:
                    k += 1
                bad('html-structure-changed', 'tag structure differs from the neutral rendering at event %d: %r vs %r'
                    % (k, sk.events[k:k + 2], nk.events[k:k + 2]))
                return
        if pkey not in ('ctrl',) + SURROGATE and carrier in ('detail', 'message', 'error_type'):
            hay = ''.join(sk.text) + '\n' + '\n'.join(sk.attrvals)
            if payload not in hay:
                bad('html-payload-missing', 'payload text is not present verbatim in the page text')
    elif fmt == 'text':
        pass


def check_negotiation(bad, res, accept):
    fmt = fmt_of(res)
    if fmt is None:
        bad('content-type', 'Content-Type %r is none of the four supported types' % res.header('Content-Type'))
        return None
    allowed = N.acceptable_formats(accept)
    if fmt not in allowed:
        bad('negotiation', 'format %s chosen, acceptable by the Accept header: %s' % (fmt, sorted(allowed)))
    return fmt


def run_case(acc, A, handler, kind, spec, accept, pkey, carrier, neutral_cache):
    """kind: 'class' (raise/return an HTTPException), 'boom' (uncaught), 'notfound' (path)."""
    handler, _, method = handler.partition('#')
    method = method or 'GET'
    app = A.app.get(handler)
    payload = PAYLOADS.get(pkey, '')
    hdrs = {'Accept': accept} if accept is not None else {}
    if handler == 'gzip':
        hdrs['Accept-Encoding'] = 'gzip'
    fields = {}
    want = None

    def do(pl):
        if kind == 'class':
            cname, field, how = spec
            kw = {}
            if field == 'code':
                kw['code'] = 418
            elif field == 'code499':
                kw['code'] = 499          # not in any table of registered status codes
            elif field is not None and field.startswith('mt:'):
                # the documented mimetype= option; an unrecognised type falls back to text/plain, header and body together
                if field != 'mt:none':
                    kw['mimetype'] = field[3:]
                kw['detail'] = pl
            elif field is not None and field.startswith('ct:'):
                # the documented content_type= option, together with a hostile detail
                kw['content_type'] = field[3:]
                kw['detail'] = pl
            elif field is not None:
                kw[field] = pl
            A.spec = (cname, kw, how)
            if handler == 'direct':
                # the error object is itself a WSGI application (a response): served as it was constructed
                e = (A.extra_classes.get(cname) or getattr(A.errors, cname))(**kw)
                return wsgi.call(e, '/err', method, headers=hdrs), kw
            return wsgi.call(app, '/err', method, headers=hdrs), kw
        if kind == 'boom':
            A.message = pl if carrier == 'excmsg' else 'msg'
            A.local = pl if carrier == 'local' else 'loc'
            h = dict(hdrs)
            q = ''
            if carrier == 'query':
                q = 'p=' + urllib.parse.quote(pl.encode('utf-8', 'surrogatepass'))
            if carrier == 'header':
                h['X-Payload'] = pl.encode('utf-8', 'surrogatepass').decode('latin-1').replace('\x0b', ' ').replace('\x01', ' ')
            if carrier == 'cookie':
                h['Cookie'] = 'c=' + urllib.parse.quote(pl.encode('utf-8', 'surrogatepass'))
            if carrier == 'path':
                # the uncaught exception happens on a route that matched through a multi-segment binding
                return wsgi.call(app, '/boomp/' + pl.replace('/', '|'), 'GET', headers=h), {}
            if carrier == 'host':
                h['Host'] = 'h' + ''.join(c for c in pl if c not in ' \x01\x0b') + '.example'
            return wsgi.call(app, '/boom', method, query=q, headers=h), {}
        if kind == 'notfound':
            return wsgi.call(app, '/nf/' + pl.replace('/', '|'), method, headers=hdrs), {}
        if kind == 'shortform':
            h = dict(hdrs, **{'Content-Type': 'application/x-www-form-urlencoded', 'Content-Length': '100'})
            return wsgi.call(app, '/form', 'POST', headers=h, body=b'a=1'), {}
    res, kw = do(payload)
    acc.evaluated += 1
    acc.transitions += 1
    acc.validated += 1
    case = {'handler': handler if method == 'GET' else handler + '#' + method, 'kind': kind, 'spec': list(spec) if spec else None, 'accept': accept, 'payload': pkey,
            'carrier': carrier}

    def bad(k, msg):
        acc.violation('C09:%s:%s:%s:%s' % (k, kind if kind != 'class' else 'class-' + str(spec[1]), pkey, handler),
                      '%s; %r Accept=%r -> %s %s' % (msg, case, accept, res.status, (res.body or b'')[:300]), case)
    if res.raised is not None:
        bad('raised-%s' % type(res.raised).__name__, 'application raised %r' % (res.raised,))
        return
    cl = res.header('Content-Length') if res.headers else None
    if cl is not None and method != 'HEAD' and (not cl.strip().isdigit() or int(cl) != len(res.body or b'')):
        bad('content-length', 'Content-Length says %r, the body has %d bytes' % (cl, len(res.body or b'')))
        return
    # what the client sees is the body with the declared content coding undone and the declared charset applied
    problem = client_view(res)
    if problem and method != 'HEAD':
        bad(problem[0], problem[1])
        return
    if kind == 'class':
        cls = A.extra_classes.get(spec[0]) or getattr(A.errors, spec[0])
        want = 418 if spec[1] == 'code' else (499 if spec[1] == 'code499' else cls.code)
        fields = {'code': want, 'message': kw.get('message', cls.message), 'detail': kw.get('detail', None),
                  'error_type': kw.get('error_type', None)}
        if handler == 'direct':
            fields['message'] = None
        if 'detail' not in kw:
            fields['detail'] = None      # class default detail (MethodNotAllowed appends) - presence only
    elif kind in ('boom', 'shortform'):
        want = 500
        fields = {'code': 500, 'message': None, 'detail': None, 'error_type': None}
    else:
        want = 404
        fields = {'code': 404, 'message': None, 'detail': None, 'error_type': None}
    if kind == 'shortform' and res.code in (400, 500):
        # whether the unreadable body is the client's fault (400) or an uncaught error (500) is not C09's business;
        # that the answer is an error in the negotiated format is
        want = res.code
        fields = dict(fields, code=want)
    if res.code != want:
        bad('status-%s' % res.code, 'status %s, expected %s' % (res.status, want))
        return
    if handler == 'direct':
        fmt = fmt_of(res)
        exp = dict((m, f) for f, m in CT.items()).get(spec[1][3:], 'text')
        if fmt != exp:
            bad('direct-format', 'constructed with mimetype=%r: served as %r, expected %s'
                % (spec[1][3:], res.header('Content-Type'), CT[exp]))
            return
        if fmt == 'text' and (not (res.body or b'')[:1].isdigit() or b'<html' in (res.body or b'').lower()):
            bad('direct-text-body', 'text/plain fallback body does not look like the plain rendering')
            return
    else:
        fmt = check_negotiation(bad, res, accept)
    acc.outcome('%s|%s|%s|%s|%s' % (kind, spec[1] if kind == 'class' else carrier, pkey, handler, fmt))
    if method == 'HEAD':
        # same status and negotiated representation as the GET; there is no body to look at
        if res.body:
            bad('head-body', 'HEAD response carries a body')
        return
    if pkey not in ('plain', 'nonascii', None):
        acc.add('nontrivial')
    if fmt is None:
        return
    if kind == 'class' and spec[0] == 'ForbiddenLatin1' and fmt == 'json':
        return      # application/json carries no charset parameter: an 8-bit error type has no way to declare itself
    neutral_body = None
    if fmt == 'html' and pkey is not None:
        nkey = (handler, kind, tuple(spec) if spec else None, carrier, accept, neutral_for(pkey))
        neutral_body = neutral_cache.get(nkey)
        if neutral_body is None:
            nres, _ = do(neutral_for(pkey))
            client_view(nres)
            acc.transitions += 1
            neutral_body = neutral_cache[nkey] = nres.body
    strict = not (kind == 'class' and spec[0] in ('InternalServerError', 'NotImplemented', 'BadGateway',
                                                 'ServiceUnavailable', 'GatewayTimeout', 'HTTPVersionNotSupported')
                  and spec[1] != 'error_type')
    check_body(acc, bad, res, fmt, fields, neutral_body, pkey, payload,
               carrier if kind != 'class' else ('detail' if str(spec[1])[:3] in ('ct:', 'mt:') else spec[1]), strict_fields=True)


def items(tier):
    out = []
    classes = http_classes()
    for cname in classes:
        for how in ('raise', 'return'):
            out.append(('default', 'class', (cname, None, how), None))
            out.append(('default', 'class', (cname, 'code', how), None))
            out.append(('default', 'class', (cname, 'code499', how), None))
            out.append(('default#HEAD', 'class', (cname, None, how), None))
            for field in ('detail', 'message', 'error_type'):
                for pkey in sorted(PAYLOADS):
                    out.append(('default', 'class', (cname, field, how), pkey))
            if cname in ('Forbidden', 'NotFound', 'InternalServerError', 'BadRequest'):
                for ct in ('application/json', 'text/html; charset=utf-8', 'application/xml; charset=utf-8', 'text/plain'):
                    for pkey in ('tag', 'quotes', 'plain'):
                        out.append(('default', 'class', (cname, 'ct:' + ct, how), pkey))
    for handler in ('postdata', 'postdata-debug'):
        out.append((handler, 'shortform', None, ('body', 'plain')))
    for handler in ('default#HEAD', 'debug#HEAD'):
        out.append((handler, 'boom', None, ('excmsg', 'plain')))
        out.append((handler, 'notfound', None, ('path', 'plain')))
        out.append((handler.replace('HEAD', 'OPTIONS'), 'notfound', None, ('path', 'plain')))
    for handler in ('default', 'debug'):
        for carrier in ('excmsg', 'local', 'query', 'header', 'cookie'):
            for pkey in sorted(PAYLOADS):
                out.append((handler, 'boom', None, (carrier, pkey)))
        for pkey in sorted(PAYLOADS):
            if pkey not in SURROGATE:
                out.append((handler, 'notfound', None, ('path', pkey)))
                out.append((handler, 'boom', None, ('path', pkey)))
                if pkey != 'nonascii':
                    out.append((handler, 'boom', None, ('host', pkey)))
    for cname in ('Forbidden', 'NotFound', 'InternalServerError'):
        for how in ('raise', 'return'):
            # behind GzipMiddleware, asked for with Accept-Encoding: gzip, with a long and with a short detail
            for pkey in ('long', 'tag', 'plain'):
                out.append(('gzip', 'class', (cname, 'detail', how), pkey))
    for cname in ('Forbidden', 'NotFound', 'InternalServerError', 'Conflict'):
        for how in ('raise', 'return'):
            out.append(('rendered', 'class', (cname, None, how), None))
            out.append(('rendered', 'class', (cname, 'detail', how), 'tag'))
    for cname in ('ForbiddenLatin1',):
        for how in ('raise', 'return'):
            for pkey in ('latin', 'tag', 'plain', 'long'):
                for field in ('detail', 'message'):
                    out.append(('default', 'class', (cname, field, how), pkey))
    for cname in ('Forbidden', 'NotFound', 'InternalServerError'):
        for how in ('raise', 'return'):
            out.append(('norebind', 'class', (cname, None, how), None))
            for pkey in ('tag', 'plain', 'script'):
                out.append(('norebind', 'class', (cname, 'detail', how), pkey))
    for cname in ('Forbidden', 'NotFound', 'BadRequest', 'InternalServerError'):
        for mt in ('none', 'application/pdf', 'application/xhtml+xml', 'text/xml', 'TEXT/HTML', '', 'text/html',
                   'application/json', 'application/xml', 'text/plain'):
            for pkey in ('tag', 'plain'):
                out.append(('direct', 'class', (cname, 'mt:' + mt, 'raise'), pkey))
    # a few classes under the debug handler as well
    for cname in ('Forbidden', 'NotFound', 'InternalServerError'):
        for field in ('detail', 'error_type'):
            for pkey in sorted(PAYLOADS):
                out.append(('debug', 'class', (cname, field, 'raise'), pkey))
    return out


def accepts_for(item, tier):
    handler, kind, spec, p = item
    if handler == 'direct':
        return [None]
    if kind == 'class':
        cname = spec[0]
        return ACCEPTS
    if handler.startswith('debug') and tier == 'quick':
        return ACCEPTS_SHORT
    return ACCEPTS


def nshards(tier):
    return 32


def shard(tier, i, n, seed):
    common.setup_repo()
    acc = common.Acc()
    A = Apps()
    cache = {}
    for k, item in enumerate(items(tier)):
        if k % n != i:
            continue
        if deadline_passed():
            acc.extra['cap_hit'] = 1
            return acc
        handler, kind, spec, p = item
        for accept in accepts_for(item, tier):
            if kind == 'class':
                run_case(acc, A, handler, kind, spec, accept, p, spec[1], cache)
            else:
                run_case(acc, A, handler, kind, None, accept, p[1], p[0], cache)
        if k % 211 == i % 211:
            acc.sample({'handler': handler, 'kind': kind, 'spec': spec, 'payload': p if kind == 'class' else p[1],
                        'accepts': len(accepts_for(item, tier))})
    return acc


def space_size(tier):
    return sum(len(accepts_for(it, tier)) for it in items(tier))


def finish(tier, merged, results):
    oc = merged['outcomes']
    if not merged['violations']:
        fmts = set(k.rsplit('|', 1)[1] for k in oc)
        if fmts != set(['html', 'json', 'text', 'xml']):
            raise common.InternalError('vacuous: formats seen %r' % fmts)
    return {'space_size': space_size(tier),
            'bounds': {'classes': len(http_classes()), 'payloads': sorted(PAYLOADS), 'accept_headers': len(ACCEPTS),
                       'items': len(items(tier))},
            'distinct_nontrivial': len(oc)}


def replay(case):
    common.setup_repo()
    acc = common.Acc()
    A = Apps()
    spec = tuple(case['spec']) if case.get('spec') else None
    run_case(acc, A, case['handler'], case['kind'], spec, case['accept'], case['payload'], case['carrier'], {})
    if acc.violations:
        return False, acc.violations[0]['desc'][:3000]
    return True, 'ok'
