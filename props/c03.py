# -*- coding: utf-8 -*-
"""C03 - middlewares nest in the documented M-shaped order.

Complete enumeration of middleware stacks over three placement levels (outer
application, embedded application, route), four middleware types (unique,
unique, non-unique, unique non-reorderable), every subset of phase functions,
crossed with one fault script at every position of the chain and three
endpoint result kinds.  The recorded enter/leave/next-returned/next-raised
event sequence, with object identities, must equal the one ref/onion.py
derives from the statement.
"""
import itertools
import os
import time

from mc import common, chain
from ref import bind as B
from ref import onion as O

ID = 'C03'
LEVEL = 'model_checking'
BUDGET = {'quick': 300, 'thorough': 3000}
RULE = ('stacks x fault scripts enumerated as complete products (layers S1 structure/merge, S2 phase subsets x faults, '
        'S3/S4 deeper stacks); one evaluation = one configuration with one request; non-trivial = at least two '
        'functions ran; distinct = distinct expected event skeletons')
ASSUMPTIONS = ['ref/onion.py + ref/bind.merged_stack are the trusted reading of the statement',
               'duplicates of a unique type inside one and the same middleware list are not generated (the test suite '
               'pins that an application keeps all of them; the statement is about merging lists)']

PHASES = B.PHASES
TYPES = {'A': (True, True), 'B': (True, True), 'N': (False, True), 'X': (True, False), 'As': (True, True)}
PARENT = {'As': 'A'}      # 'As' is a subclass of 'A' - a different type all the same
MW_SCRIPTS = ('raise_before', 'raise_after', 'early', 'swallow', 'replace')
LEVEL_SEQS = {}


def deadline_passed():
    d = os.environ.get('VERIF_DEADLINE')
    return bool(d) and time.time() > float(d)


def level_seqs(m):
    return list(itertools.combinations_with_replacement(('outer', 'app', 'route'), m))


def valid_types(levels, types, embedded=None):
    """No duplicate unique type inside the *serving* application's own list (there the suite pins that all are
    kept; outside the merge rule).  Inner lists - route-level, and an embedded application's list - may repeat a
    unique type: merging keeps it once, at its outermost position."""
    if embedded is None:
        embedded = 'outer' in levels
    serving = 'outer' if embedded else 'app'
    ts = [t for l, t in zip(levels, types) if l == serving and TYPES[t][0]]
    return len(ts) == len(set(ts))


def share_instances(cfg):
    """Variant: every later non-unique middleware is the *same object* as the first one of its type."""
    import copy
    first = {}
    out = None
    for i, m in enumerate(cfg['mws']):
        if m['unique']:
            continue
        if m['type'] in first:
            if out is None:
                out = copy.deepcopy(cfg)
            j = first[m['type']]
            out['mws'][i] = dict(copy.deepcopy(out['mws'][j]), level=m['level'], same_as=j)
        else:
            first[m['type']] = i
    return out


def base_cfg(levels, types, subsets, ep_kind, with_render, embedded):
    cfg = {'mws': [], 'endpoint': {'params': []}, 'render': None, 'url': [], 'app_res': [], 'route_res': [],
           'embedded': embedded, 'sibling': True}
    for i, (lv, t, sub) in enumerate(zip(levels, types, subsets)):
        mw = {'level': lv, 'type': t, 'unique': TYPES[t][0], 'reorderable': TYPES[t][1]}
        if t in PARENT:
            mw['parent'] = PARENT[t]
        for ph, on in zip(PHASES, sub):
            mw[ph] = {'params': []} if on else None
        cfg['mws'].append(mw)
    if with_render or ep_kind == 'context':
        cfg['render'] = {'params': [['context', 'req']]}
    if ep_kind != 'default':
        cfg['endpoint']['script'] = ep_kind
    return cfg


def positions(cfg):
    out = []
    for i, m in enumerate(cfg['mws']):
        for ph in PHASES:
            if m.get(ph):
                out.append('m%d.%s' % (i, ph))
    out.append('ep')
    if cfg.get('render'):
        out.append('rn')
    return out


def with_fault(cfg, fid, script):
    import copy
    c = copy.deepcopy(cfg)
    if fid == 'ep':
        c['endpoint']['script'] = script
    elif fid == 'rn':
        c['render']['script'] = script
    else:
        i, ph = fid[1:].split('.')
        c['mws'][int(i)][ph]['script'] = script
    return c


EP_KINDS = ('response', 'httpexc', 'context')


def gen_structure(m):
    """S1: merge/dedupe structure; every middleware has all three phase functions; no fault."""
    full = (True, True, True)
    for levels in level_seqs(m):
        for types in itertools.product(sorted(TYPES), repeat=m):
            if not valid_types(levels, types, 'outer' in levels or m % 2 == 1):
                continue
            for ep_kind in EP_KINDS:
                cfg = base_cfg(levels, types, [full] * m, ep_kind, True, 'outer' in levels or m % 2 == 1)
                yield cfg
                sh = share_instances(cfg)
                if sh is not None:
                    yield sh


def gen_faults(m, type_sets, faults=True):
    """S2/S3: every subset of phase functions x one fault script at every position."""
    subsets = list(itertools.product((False, True), repeat=3))
    for levels in level_seqs(m):
        for types in type_sets(m):
            if not valid_types(levels, types):
                continue
            for subs in itertools.product(subsets, repeat=m):
                for ep_kind in EP_KINDS:
                    for with_render in ((True,) if ep_kind == 'context' else (True, False)):
                        cfg = base_cfg(levels, types, subs, ep_kind, with_render, 'outer' in levels)
                        yield cfg
                        if not faults:
                            sh = share_instances(cfg)
                            if sh is not None:
                                yield sh
                            continue
                        for fid in positions(cfg):
                            if fid == 'ep':
                                scripts = ('raise', 'raise_httpexc')
                            elif fid == 'rn':
                                scripts = ('raise',)
                            else:
                                scripts = MW_SCRIPTS
                            for sc in scripts:
                                yield with_fault(cfg, fid, sc)


def gen_params(m):
    """SP: the ordering must not depend on what the functions take: in one phase, middleware j provides a name
    which earlier functions mention with a default and later ones require or default."""
    from ref.bind import PROVIDES_ATTR
    full = (True, True, True)
    types = tuple('ABX'[:m])
    for levels in level_seqs(m):
        if 'outer' in levels:
            continue
        for ph in PHASES:
            for j in range(m):
                roles = [(None, 'def') if i < j else ((None,) if i == j else (None, 'def', 'req')) for i in range(m)]
                for combo in itertools.product(*roles):
                    if not any(combo):
                        continue
                    for ep_kind in ('response', 'context'):
                        cfg = base_cfg(levels, types, [full] * m, ep_kind, True, False)
                        cfg['mws'][j][PROVIDES_ATTR[ph]] = ['u']
                        for i, role in enumerate(combo):
                            if role:
                                cfg['mws'][i][ph]['params'] = [['u', role]]
                        yield cfg


def distinct_types(m):
    return [tuple('ABN'[:m])] if m <= 3 else [tuple('ABNA')]


def dup_types(m):
    return [t for t in itertools.product('AN', repeat=m)]


def layers(tier):
    if tier == 'quick':
        return [('S1-%d' % m, (lambda m=m: gen_structure(m))) for m in (0, 1, 2, 3)] + \
               [('S2-1', lambda: gen_faults(1, distinct_types)), ('S2-2', lambda: gen_faults(2, distinct_types)),
                ('S2-2dup', lambda: gen_faults(2, dup_types, False)),
                ('SP-2', lambda: gen_params(2)), ('SP-3', lambda: gen_params(3))]
    return [('S1-%d' % m, (lambda m=m: gen_structure(m))) for m in (0, 1, 2, 3, 4)] + \
           [('S2-1', lambda: gen_faults(1, distinct_types)), ('S2-2', lambda: gen_faults(2, distinct_types)),
            ('S2-2dup', lambda: gen_faults(2, dup_types)), ('S3-3', lambda: gen_faults(3, distinct_types)),
            ('SP-2', lambda: gen_params(2)), ('SP-3', lambda: gen_params(3))]


def skeleton(trace):
    out = []
    for ev in trace:
        if ev[0] == 'enter':
            out.append(('enter', ev[1]))
        elif ev[0] in ('leave', 'next_returned', 'next_raised'):
            out.append(tuple(ev))
    return out


def check_config(acc, h, cfg, layer):
    acc.evaluated += 1
    case = {'cfg': cfg, 'layer': layer}
    try:
        exp = O.simulate(cfg)
        exp_reject = None
    except B.Reject as r:
        exp, exp_reject = None, r
    try:
        app = h.build(cfg, construct=cfg.get('construct', 'list'))
        built = None
    except Exception as e:
        built = e
    acc.validated += 1
    if exp_reject is not None:
        acc.outcome('%s:reject' % layer)
        if built is None:
            acc.violation('C03:accepted-nonreorderable-duplicate', 'stack accepted although %s' % exp_reject.why, case)
        elif type(built).__name__ not in exp_reject.exc_names:
            acc.violation('C03:wrong-exception:%s' % type(built).__name__,
                          'stack rejected with %r, expected %r' % (built, exp_reject.exc_names), case)
        return
    if built is not None:
        acc.violation('C03:construct:%s' % type(built).__name__, 'valid stack rejected: %r' % (built,), case)
        return
    res, trace = chain.run_request(h, h.path, 'GET')
    acc.transitions += 1
    got = skeleton(trace)
    want = [tuple(e) for e in exp['trace']]
    nfun = sum(1 for e in want if e[0] == 'enter')
    if nfun >= 2:
        acc.add('nontrivial')
    acc.outcome('%s:%d-functions:%s:%d' % (layer, nfun, exp['outcome'][0], exp['status']))
    acc.add('skeletons', 0)
    if res.raised is not None:
        acc.violation('C03:request-raised:%s' % type(res.raised).__name__, 'request raised %r' % (res.raised,), case)
        return
    if got != want:
        # first difference tells what kind of ordering went wrong
        k = 0
        while k < min(len(got), len(want)) and got[k] == want[k]:
            k += 1
        g = got[k] if k < len(got) else ('<end>',)
        w = want[k] if k < len(want) else ('<end>',)
        ph = (w[1].split('.')[-1] if len(w) > 1 else (g[1].split('.')[-1] if len(g) > 1 else 'end'))
        acc.violation('C03:trace:%s-vs-%s:%s' % (g[0], w[0], ph),
                      'event %d is %r, expected %r;\n observed %r\n expected %r' % (k, g, w, got, want), case)
        return
    if res.code != exp['status']:
        acc.violation('C03:status:%s' % res.code, 'status %s, expected %s' % (res.status, exp['status']), case)
        return
    # a plain route bound after this one sees the application-level middlewares only
    sexp = O.simulate(cfg, sibling=True)
    res, trace = chain.run_request(h, '/sib', 'GET')
    acc.transitions += 1
    got = skeleton(trace)
    want = [tuple(e) for e in sexp['trace']]
    if res.raised is not None:
        acc.violation('C03:sibling-raised:%s' % type(res.raised).__name__, 'request to the sibling route raised %r' % (res.raised,), case)
    elif got != want:
        acc.violation('C03:sibling-trace', 'a plain route bound after the main route ran %r, expected %r' % (got, want), case)
    # a request no route accepts is answered by the built-in catch-all route, which runs the application-level
    # middlewares exactly like a plain route does (its own endpoint is not instrumented)
    res, trace = chain.run_request(h, '/zz/unknown', 'GET')
    acc.transitions += 1
    got = skeleton(trace)
    want = [tuple(e) for e in O.simulate(cfg, catchall=True)['trace'] if e[1] != 'sib']
    if res.raised is not None:
        acc.violation('C03:catchall-raised:%s' % type(res.raised).__name__, 'request to an unknown path raised %r' % (res.raised,), case)
    elif got != want:
        acc.violation('C03:catchall-trace', 'the catch-all route ran %r, expected %r' % (got, want), case)
    # history: the application's meta page is looked at, then a route is added to the live application - it nests
    # in the order the middlewares were given in
    if layer.startswith('S1') and len(cfg['mws']) == 2 and all(m['level'] == 'app' for m in cfg['mws']) \
            and not cfg.get('embedded'):
        from clastic import MetaApplication, Route
        from mc import wsgi
        try:
            app.add(('/_meta/', MetaApplication()))
            for p in ('/_meta/', '/_meta/json/'):
                h.reset()
                wsgi.call(app, p, 'GET')
            late = h.make_callable('late', {'params': []}, 'func')
            h.scripts['late'] = 'response'
            app.add(Route('/late', late))
        except Exception as e:
            acc.violation('C03:late-add:%s' % type(e).__name__, 'adding the meta application / a late route raised %r' % (e,), case)
            return
        res, trace = chain.run_request(h, '/late', 'GET')
        acc.transitions += 3
        got = skeleton(trace)
        want = [tuple('late' if x == 'sib' else x for x in e) for e in sexp['trace']]
        if res.raised is not None:
            acc.violation('C03:late-raised:%s' % type(res.raised).__name__, 'request to the late route raised %r' % (res.raised,), case)
        elif got != want:
            acc.violation('C03:late-trace', 'a route added after the meta page had been served ran %r, expected %r' % (got, want), case)


def stock_pairs():
    from clastic.middleware import GzipMiddleware, HTTPCacheMiddleware, SimpleContextProcessor, ContextProcessor
    from clastic.middleware.url import GetParamMiddleware, ScriptRootMiddleware
    from clastic.middleware.form import PostDataMiddleware
    from clastic.middleware.cookie import SignedCookieMiddleware
    from clastic.middleware.stats import StatsMiddleware
    from clastic.middleware.profile import SimpleProfileMiddleware
    return [
        ('getparam', lambda k: GetParamMiddleware(['q%d' % k])),
        ('getparam-same', lambda k: GetParamMiddleware(['q'])),
        ('postdata', lambda k: PostDataMiddleware(['f%d' % k])),
        ('scriptroot', lambda k: ScriptRootMiddleware('root%d' % k)),
        ('cookie', lambda k: SignedCookieMiddleware(secret_key=b'k%d' % k, arg_name='ck%d' % k, cookie_name='c%d' % k)),
        ('gzip', lambda k: GzipMiddleware(compress_level=k + 1)),
        ('httpcache', lambda k: HTTPCacheMiddleware(max_age=k)),
        ('stats', lambda k: StatsMiddleware()),
        ('profile', lambda k: SimpleProfileMiddleware(get_param_name='_p%d' % k)),
        ('simplectx', lambda k: SimpleContextProcessor('r%d' % k)),
        ('ctxproc', lambda k: ContextProcessor(defaults={'d%d' % k: k})),
    ]


STOCK_SITES = ('app+route', 'outer+inner', 'outer+inner+route', 'outer+route')
REROUTE_ITEMS = 2 * 2 * 2


def check_stock(acc):
    """The merge rule with the stock middleware classes (each a unique type), configured differently at each level:
    exactly one instance of the type ends up on the route, the outermost one.  And the stock hand-over endpoint
    (RerouteWSGI) is an endpoint like any other: the route's middlewares run around it."""
    from clastic import Application, Route
    from clastic.application import RerouteWSGI
    from clastic.middleware import Middleware
    from clastic.errors import Forbidden
    from werkzeug.wrappers import Response
    from mc import wsgi
    log = []
    for label, mk in stock_pairs():
        for site in STOCK_SITES:
            acc.evaluated += 1
            acc.validated += 1
            acc.transitions += 1
            acc.add('nontrivial')
            case = {'layer': 'stock', 'label': label, 'site': site}
            a, b, c = mk(0), mk(1), mk(2)
            ep = lambda: Response('ok')
            try:
                if site == 'app+route':
                    app = Application([Route('/r', ep, middlewares=[b])], middlewares=[a])
                elif site == 'outer+route':
                    app = Application([('/', Application([Route('/r', ep, middlewares=[b])]))], middlewares=[a])
                elif site == 'outer+inner':
                    app = Application([('/', Application([Route('/r', ep)], middlewares=[b]))], middlewares=[a])
                else:
                    app = Application([('/', Application([Route('/r', ep, middlewares=[c])], middlewares=[b]))], middlewares=[a])
            except Exception as e:
                acc.violation('C03:stock-rejected:%s' % label, '%s at %s: construction raised %r' % (label, site, e), case)
                continue
            rt = [r for r in app.routes if r.pattern == '/r'][0]
            same = [m for m in rt.middlewares if type(m) is type(a)]
            acc.outcome('stock:%s' % label)
            if len(same) != 1 or same[0] is not a:
                acc.violation('C03:stock-unique-type:%s' % label, '%s at %s: the route carries %d middleware(s) of the unique type %s (%s), '
                              'expected the outermost one only' % (label, site, len(same), type(a).__name__,
                                                                   ['abc'[[a, b, c].index(m)] if any(m is x for x in (a, b, c)) else '?' for m in same]), case)
                continue
            res = wsgi.call(app, '/r', 'GET')
            if res.raised is not None or res.code != 200:
                acc.violation('C03:stock-request:%s' % label, '%s at %s: request answered %s %r' % (label, site, res.status, res.raised), case)
    log = []

    class Tracer(Middleware):
        def request(self, next):
            log.append('tracer-in')
            try:
                return next()
            finally:
                log.append('tracer-out')

    class Gate(Middleware):
        deny = False

        def request(self, next):
            log.append('gate')
            if self.deny:
                return Forbidden('closed')
            return next()

    def target(environ, start_response):
        log.append('target')
        start_response('200 OK', [('Content-Type', 'text/plain')])
        return [b'target']
    # a stock middleware in the middle of the stack is transparent to failures further in: every layer is entered once
    # and sees the very exception that was raised, once
    for label, mk in stock_pairs():
        for exc_type in (TypeError, ValueError, KeyError, AttributeError, RuntimeError, LookupError):
            for where in ('endpoint', 'render'):
                acc.evaluated += 1
                acc.validated += 1
                acc.transitions += 1
                acc.add('nontrivial')
                case = {'layer': 'stock-failure', 'label': label, 'exc': exc_type.__name__, 'where': where}
                del log[:]
                the_exc = exc_type('raised by the %s' % where)

                def mk_tracer(tag):
                    class T(Middleware):
                        def request(self, next):
                            log.append(tag + '.request>')
                            try:
                                return next()
                            except Exception as e:
                                log.append(tag + '.request!' + ('same' if e is the_exc else repr(e)))
                                raise

                        def render(self, next, context):
                            log.append(tag + '.render>')
                            try:
                                return next()
                            except Exception as e:
                                log.append(tag + '.render!' + ('same' if e is the_exc else repr(e)))
                                raise
                    T.__name__ = 'T' + tag
                    return T()

                def ep_f():
                    log.append('ep')
                    if where == 'endpoint':
                        raise the_exc
                    return {'k': 'v'}

                def rn_f(context):
                    log.append('render')
                    raise the_exc
                try:
                    app = Application([Route('/f', ep_f, rn_f)], middlewares=[mk_tracer('outer'), mk(0), mk_tracer('inner')])
                except Exception as e:
                    acc.violation('C03:stock-rejected:%s' % label, '%s between two tracing middlewares: construction raised %r' % (label, e), case)
                    continue
                res = wsgi.call(app, '/f', 'GET')
                if where == 'endpoint':
                    want = ['outer.request>', 'inner.request>', 'ep', 'inner.request!same', 'outer.request!same']
                else:
                    want = ['outer.request>', 'inner.request>', 'ep', 'outer.render>', 'inner.render>', 'render',
                            'inner.render!same', 'outer.render!same', 'inner.request!same', 'outer.request!same']
                acc.outcome('stock-failure:%s:%s' % (label, where))
                if log != want or res.code != 500:
                    acc.violation('C03:stock-failure-trace:%s:%s' % (label, where), '%s in the middle of the stack, %s raised by the %s: '
                                  'trace %r -> %s, expected %r' % (label, exc_type.__name__, where, log, res.status, want), case)
    for spelling in ('instance', 'raising-function'):
        for level in ('app', 'route'):
            for deny in (False, True):
                acc.evaluated += 1
                acc.validated += 1
                acc.transitions += 1
                acc.add('nontrivial')
                case = {'layer': 'reroute', 'spelling': spelling, 'level': level, 'deny': deny}
                gate = Gate()
                gate.deny = deny
                mws = [Tracer(), gate]
                if spelling == 'instance':
                    ep = RerouteWSGI(target)
                else:
                    def ep():
                        raise RerouteWSGI(target)
                try:
                    app = Application([Route('/go', ep, middlewares=mws if level == 'route' else [])],
                                      middlewares=mws if level == 'app' else [])
                except Exception as e:
                    acc.violation('C03:reroute-rejected', 'hand-over endpoint (%s) behind middlewares rejected: %r' % (spelling, e), case)
                    continue
                del log[:]
                res = wsgi.call(app, '/go', 'GET')
                want = ['tracer-in', 'gate', 'tracer-out'] + ([] if deny else ['target'])
                acc.outcome('reroute:%s:%s' % (spelling, deny))
                if res.raised is not None:
                    acc.violation('C03:reroute-raised', 'request raised %r' % (res.raised,), case)
                elif log != want or res.code != (403 if deny else 200):
                    acc.violation('C03:reroute-trace:%s' % spelling, 'hand-over endpoint (%s), middlewares at %s level, gate %s: ran %r '
                                  '-> %s, expected %r' % (spelling, level, 'closed' if deny else 'open', log, res.status, want), case)


def nshards(tier):
    return 32 if tier == 'quick' else 64


def shard(tier, i, n, seed):
    common.setup_repo()
    acc = common.Acc()
    h = chain.Harness()
    k = 0
    if i == 0:
        check_stock(acc)
    for name, gen in layers(tier):
        for cfg in gen():
            k += 1
            if k % n != i:
                continue
            if k % 256 == i and deadline_passed():
                acc.extra['cap_hit'] = 1
                return acc
            if (k // n) % 3 == 1:
                cfg = dict(cfg, mws_one_shot=True)      # middlewares= handed over as one-shot iterables
            if (k // n) % 4 == 2:
                cfg = dict(cfg, construct='cline')      # the Cline spelling
            if (k // n) % 5 == 3 and any(m['level'] == 'app' for m in cfg['mws']):
                cfg = dict(cfg, bundled_between=True)   # stock middlewares in the middle of the stack
            check_config(acc, h, cfg, name)
            if k % 7919 == i:
                acc.sample({'layer': name, 'cfg': cfg})
    return acc


def finish(tier, merged, results):
    oc = merged['outcomes']
    if not merged['violations']:
        if not any(k.endswith(':reject') for k in oc):
            raise common.InternalError('vacuous: no non-reorderable duplicate enumerated')
        if not any(':raise:' in k for k in oc) or not any(':return:409' in k for k in oc):
            raise common.InternalError('vacuous: fault scripts did not produce raise / HTTPException outcomes')
    sizes = dict((name, sum(1 for _ in gen())) for name, gen in layers(tier))
    sizes['stock'] = len(stock_pairs()) * len(STOCK_SITES) + REROUTE_ITEMS + len(stock_pairs()) * 6 * 2
    return {'space_size': sum(sizes.values()), 'bounds': {'layers': sizes, 'types': TYPES, 'mw_scripts': MW_SCRIPTS},
            'distinct_nontrivial': merged['extra'].get('nontrivial', 0)}


def replay(case):
    common.setup_repo()
    acc = common.Acc()
    h = chain.Harness()
    if case.get('layer') in ('stock', 'reroute', 'stock-failure'):
        check_stock(acc)
        vs = [v for v in acc.violations if v['case'] == case]
        return (False, vs[0]['desc']) if vs else (True, 'ok')
    check_config(acc, h, case['cfg'], case.get('layer', 'replay'))
    if acc.violations:
        return False, acc.violations[0]['desc']
    return True, 'ok'
