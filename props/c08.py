# -*- coding: utf-8 -*-
"""C08 - every request gets a response; uncaught failures become the handler's 500.

Layer A: complete product (failing behaviour) x (position in a 3-middleware
chain, before/after next, endpoint, render; route with and without renderer)
x (error handler kind) x (Accept header) on one real application per handler
kind, the verdict given by a small model of what the chain's final result is.
Layer B (explicit-state over histories): all sequences of <= 3 requests from a
failing/succeeding alphabet, after each of which the application must answer
a probe set exactly as a freshly built application does.
"""
import itertools
import os
import time

from mc import common, wsgi

ID = 'C08'
LEVEL = 'model_checking'
BUDGET = {'quick': 420, 'thorough': 2400}
RULE = ('layer A: behaviours x positions x handlers x Accept headers enumerated completely (one evaluation = one '
        'request); layer B: every history of <=3 (thorough 4) requests over an 11-letter alphabet followed by the probe set; '
        'non-trivial = the behaviour is a failure (raise / non-Response / HTTPException); distinct = distinct '
        '(behaviour class, position class, handler, expected status) classes')
ASSUMPTIONS = ['the model of the final result: a value returned on the endpoint side goes to render unless it is a '
               'Response; a value returned on the request or render side is final; an exception propagates through '
               'pass-through middlewares',
               'BaseException subclasses that are not Exceptions are outside the property']

ACCEPTS = [None, 'text/html', 'application/json', 'application/xml;q=0.9, */*;q=0.1']
HANDLERS = ['default', 'debug', 'reraise', 'broken_render', 'other_error', 'broken_render_cls',
            'mixed_plain_ctxerr', 'mixed_ctx_plaininfo', 'other_error_kwonly', 'render_returns_none', 'render_returns_str']
# render_returns_*: a handler whose render_error does not return a response at all - as broken as one that raises
# other_error_kwonly: the same handler as other_error, its render_error takes what it is given as keyword-only
# parameters - the two must answer every request alike


def deadline_passed():
    d = os.environ.get('VERIF_DEADLINE')
    return bool(d) and time.time() > float(d)


class StrRaises(Exception):
    def __str__(self):
        raise RuntimeError('no str for you')


class ReprRaises(Exception):
    def __repr__(self):
        raise RuntimeError('no repr for you')


MESSAGES = {
    'ascii': 'plain message',
    'nonascii': u'caf\xe9 中文',
    'huge': 'x' * (1 << 20),
    'control': 'a\x00b\x07c\x1b[31m\r\n',
    'surrogate': u'bad \ud800 surrogate',
    'markup': '<b>{x}</b> {0} %s &amp;',
}
EXC_TYPES = [ValueError, TypeError, KeyError, IndexError, AttributeError, RuntimeError, ZeroDivisionError, OSError,
             UnicodeDecodeError, AssertionError, LookupError, NotImplementedError, StopIteration, MemoryError,
             RecursionError, NameError]


def make_exc(tname, mkey):
    msg = MESSAGES[mkey]
    if tname == 'UnicodeDecodeError':
        return UnicodeDecodeError('utf-8', b'\xff' + msg[:10].encode('utf-8', 'replace'), 0, 1, msg[:50])
    if tname == 'StrRaises':
        return StrRaises(msg)
    if tname == 'ReprRaises':
        return ReprRaises(msg)
    import builtins
    return getattr(builtins, tname)(msg)


def http_classes():
    from clastic import errors
    out = []
    for k, v in sorted(vars(errors).items()):
        try:
            if issubclass(v, errors.HTTPException) and v.code:
                out.append(k)
        except TypeError:
            pass
    return out


def behaviours(tier):
    """(key, class) where key is a JSON-able description."""
    out = []
    out.append((('return', 'response'), 'ok'))
    for v in ('str', 'none', 'int', 'dict', 'list', 'bytes'):
        out.append((('return', v), 'nonresp'))
    tnames = [t.__name__ for t in EXC_TYPES] + ['StrRaises', 'ReprRaises']
    for t in tnames:
        for m in sorted(MESSAGES):
            if tier == 'quick' and m == 'huge' and t not in ('ValueError', 'KeyError'):
                continue
            out.append((('raise', t, m), 'exc'))
    for c in http_classes():
        for how in ('raise', 'return'):
            for breaking in (True, False):
                out.append((('http', c, how, breaking), 'http'))
    # the documented mimetype= option with types clastic cannot render (a plain-text fallback is promised)
    for c in ('Forbidden', 'NotFound', 'ServiceUnavailable'):
        for how in ('raise', 'return'):
            for mt in ('application/problem+json', 'text/csv', 'text/html', ''):
                out.append((('http', c, how, True, mt), 'http'))
    return out


def positions():
    out = []
    for i in (0, 1, 2):
        for ph in ('request', 'endpoint', 'render'):
            for when in ('before', 'after'):
                out.append('m%d.%s.%s' % (i, ph, when))
    out += ['ep', 'rn']
    return out


class Ctl(object):
    def __init__(self):
        self.where = None
        self.beh = None
        self.raised = None


class Stop(Exception):
    def __init__(self, value):
        self.value = value


class App(object):
    """One application per handler kind; behaviour and position are selected per request."""

    def __init__(self, handler):
        from clastic import Application, Middleware, Route, GET, POST, render_json
        from clastic.middleware import SimpleProfileMiddleware, GzipMiddleware, HTTPCacheMiddleware
        from clastic.middleware.stats import StatsMiddleware
        from clastic.middleware.cookie import SignedCookieMiddleware
        from clastic import errors
        from werkzeug.wrappers import Response
        self.errors = errors
        self.Response = Response
        ctl = self.ctl = Ctl()
        act = self.act

        def mk(i):
            class M(Middleware):
                def request(self, next):
                    r = act('m%d.request.before' % i)
                    if r is not None:
                        return r.value
                    res = next()
                    r = act('m%d.request.after' % i)
                    return res if r is None else r.value

                def endpoint(self, next):
                    r = act('m%d.endpoint.before' % i)
                    if r is not None:
                        return r.value
                    res = next()
                    r = act('m%d.endpoint.after' % i)
                    return res if r is None else r.value

                def render(self, next):
                    r = act('m%d.render.before' % i)
                    if r is not None:
                        return r.value
                    res = next()
                    r = act('m%d.render.after' % i)
                    return res if r is None else r.value
            M.__name__ = 'M%d' % i
            return M()

        def ep_ctx():
            r = act('ep')
            return {'ok': 1} if r is None else r.value

        def ep_resp():
            r = act('ep')
            return Response('plain') if r is None else r.value

        def rn(context):
            r = act('rn')
            return Response('rendered') if r is None else r.value

        kw = {}
        if handler == 'debug':
            kw['debug'] = True
        elif handler == 'reraise':
            kw['error_handler'] = errors.ErrorHandler(reraise_uncaught=True)
        elif handler == 'broken_render':
            class Broken(errors.ErrorHandler):
                def render_error(self, request, _error):
                    raise RuntimeError('render_error is broken')
            kw['error_handler'] = Broken()
        elif handler == 'other_error':
            class Other(errors.ErrorHandler):
                def render_error(self, request, _error):
                    return errors.Forbidden('instead of %s' % _error.code)
            kw['error_handler'] = Other()
        elif handler in ('render_returns_none', 'render_returns_str'):
            class Useless(errors.ErrorHandler):
                def render_error(self, request, _error):
                    return None if handler == 'render_returns_none' else 'oops'
            kw['error_handler'] = Useless()
        elif handler == 'other_error_kwonly':
            class OtherKw(errors.ErrorHandler):
                def render_error(self, *, request, _error):
                    return errors.Forbidden('instead of %s' % _error.code)
            kw['error_handler'] = OtherKw()
        elif handler == 'mixed_plain_ctxerr':
            # documented class attributes combined by hand: plain handler, contextual 500 type
            class MixedA(errors.ErrorHandler):
                server_error_type = errors.ContextualInternalServerError
            kw['error_handler'] = MixedA()
        elif handler == 'mixed_ctx_plaininfo':
            from boltons.tbutils import ExceptionInfo

            class MixedB(errors.ContextualErrorHandler):
                exc_info_type = ExceptionInfo
            kw['error_handler'] = MixedB()
        AppType = Application
        if handler == 'broken_render_cls':
            # the failing handler is configured through the documented subclass attribute
            class BrokenCls(errors.ErrorHandler):
                def render_error(self, request, _error):
                    raise RuntimeError('render_error is broken')

            class AppType(Application):
                default_error_handler_type = BrokenCls

        def ep_num(**kw):
            return Response('num')

        def ep_nums(nums):
            return Response('nums %r' % (nums,))

        def ep_n(n):
            return Response('n %r' % (n,))
        self.app = AppType([Route('/r', ep_ctx, rn), Route('/n', ep_resp), GET('/item', ep_resp),
                            POST('/item', lambda: Response('posted')), Route('/sum/<nums+int>', ep_nums),
                            Route('/num/<n:int>', ep_n), Route('/flt/<n?float>/x', ep_n), Route('/br/', ep_resp),
                            Route('/prof', ep_resp, middlewares=[SimpleProfileMiddleware()]),
                            # the same endpoint behind the stock middlewares that look at every outcome
                            Route('/st', ep_resp, middlewares=[StatsMiddleware(), GzipMiddleware(), HTTPCacheMiddleware(),
                                                               SignedCookieMiddleware(secret_key=b'c08', expiry=600)]),
                            # the same endpoint in an application of its own, embedded: its failures are the serving
                            # application's error handler's business
                            ('/sub', Application([Route('/n', ep_resp)])),
                            Route('/jsonbad', lambda: {'o': object(), 'g': (x for x in [1])}, render_json),
                            Route('/jsonbad2', lambda: {1: object()}, render_json)],
                           middlewares=[mk(0), mk(1), mk(2)], **kw)

    def act(self, where):
        ctl = self.ctl
        if ctl.where != where or ctl.beh is None:
            return None
        beh = ctl.beh
        ctl.fired = True
        if beh[0] == 'return':
            v = {'response': lambda: self.Response('custom', status=200), 'str': lambda: 'a string', 'none': lambda: None,
                 'int': lambda: 42, 'dict': lambda: {'k': 'v'}, 'list': lambda: [1, 2], 'bytes': lambda: b'bytes'}[beh[1]]()
            if v is None:
                return Stop(None)
            return Stop(v)
        if beh[0] == 'raise':
            e = make_exc(beh[1], beh[2])
            ctl.raised = e
            raise e
        if beh[0] == 'http':
            cls = getattr(self.errors, beh[1])
            kw2 = {'mimetype': beh[4]} if len(beh) > 4 else {}
            e = cls('detail of %s' % beh[1], is_breaking=beh[3], **kw2)
            ctl.raised = e
            if beh[2] == 'raise':
                raise e
            return Stop(e)
        raise AssertionError(beh)


def expected(beh, bclass, where, route, handler):
    """Returns ('status', code) | ('escape',) | ('any-complete',)"""
    side = 'endpoint' if (where == 'ep' or '.endpoint.' in where) else ('render' if (where == 'rn' or '.render.' in where) else 'request')
    has_render = (route == '/r')
    if side == 'render' and not has_render:
        return ('not-reached',)
    if beh[0] == 'return':
        if beh[1] == 'response':
            return ('status', 200)
        # a non-Response value
        if side == 'endpoint' and has_render:
            return ('status', 200)          # becomes the render context
        if handler == 'reraise':
            return ('escape-typeerror',)
        return ('status-in', (500, 403)) if handler.startswith('other_error') else ('status', 500)
    if beh[0] == 'raise':
        if handler == 'reraise':
            return ('escape',)
        return ('status-in', (500, 403)) if handler.startswith('other_error') else ('status', 500)
    if beh[0] == 'http':
        code = getattr(__import__('clastic.errors', fromlist=['x']), beh[1]).code
        if side == 'render' and beh[2] == 'return':
            pass
        if handler.startswith('other_error'):
            return ('status-in', (code, 403))
        return ('status', code)
    raise AssertionError(beh)


def mclass(beh):
    if beh[0] == 'raise':
        return 'raise:%s:%s' % ('custom' if beh[1] in ('StrRaises', 'ReprRaises') else 'builtin', beh[2])
    if beh[0] == 'http':
        return 'http:%s:%s' % (beh[2], 'breaking' if beh[3] else 'nonbreaking')
    return 'return:%s' % beh[1]


def check_one(acc, A, handler, beh, bclass, where, route, accept):
    ctl = A.ctl
    ctl.where, ctl.beh, ctl.raised, ctl.fired = where, beh, None, False
    exp = expected(beh, bclass, where, route, handler)
    if exp[0] == 'not-reached':
        return
    hdrs = {'Accept': accept} if accept else None
    route, _, shape = route.partition('#')
    if shape == 'short-form':
        # a form POST whose body ends before its Content-Length (the client went away): nobody has read the body
        # when the endpoint fails, the error page may want to
        hdrs = dict(hdrs or {}, **{'Content-Type': 'application/x-www-form-urlencoded', 'Content-Length': '100'})
        res = wsgi.call(A.app, route, 'POST', headers=hdrs, body=b'a=1')
    else:
        res = wsgi.call(A.app, route, 'GET', headers=hdrs)
    ctl.beh = None
    acc.evaluated += 1
    acc.transitions += 1
    acc.validated += 1
    if bclass != 'ok':
        acc.add('nontrivial')
    side = 'ep' if where == 'ep' else ('rn' if where == 'rn' else where.split('.', 1)[1])
    acc.outcome('%s|%s|%s|%s' % (mclass(beh) if beh[0] != 'http' else 'http:%s' % beh[2], side, handler, exp[0]))
    case = {'handler': handler, 'behaviour': list(beh), 'where': where, 'route': route + ('#' + shape if shape else ''), 'accept': accept}

    def bad(kind, msg):
        acc.violation('C08:%s:%s:%s:%s' % (kind, mclass(beh), handler, 'debugpage' if handler == 'debug' else 'plain'),
                      '%s; behaviour=%r at %s on %s, handler=%s, Accept=%r -> status=%r raised=%r'
                      % (msg, beh, where, route, handler, accept, res.status, res.raised), case)
    if not ctl.fired:
        raise common.InternalError('behaviour did not fire: %r' % (case,))
    if exp[0] in ('escape', 'escape-typeerror'):
        if res.raised is None:
            bad('not-reraised', 're-raising handler produced a response instead of raising')
        elif exp[0] == 'escape' and res.raised is not ctl.raised:
            bad('reraised-other', 'escaped exception %r is not the original %r' % (res.raised, ctl.raised))
        return
    if res.raised is not None:
        bad('escaped-%s' % type(res.raised).__name__, 'an exception escaped to the WSGI server')
        return
    if res.sr_calls != 1:
        bad('start-response-calls', 'start_response called %d times' % res.sr_calls)
        return
    if not isinstance(res.body, bytes):
        bad('body', 'body is not bytes')
        return
    if exp[0] == 'status' and res.code != exp[1]:
        bad('status-%s-for-%s' % (res.code, exp[1]), 'expected status %s' % exp[1])
    elif exp[0] == 'status-in' and res.code not in exp[1]:
        bad('status-%s' % res.code, 'expected status in %r' % (exp[1],))
    cl = res.header('Content-Length')
    if cl is not None and int(cl) != len(res.body):
        bad('content-length', 'Content-Length %s but %d body bytes' % (cl, len(res.body)))
    if route == '/sub/n':
        # the embedded route answers like the serving application's own route: same handler, same rendering
        ctl.where, ctl.beh, ctl.raised, ctl.fired = where, beh, None, False
        own = wsgi.call(A.app, '/n', 'GET', headers=hdrs)
        ctl.beh = None
        acc.transitions += 1
        ct = lambda r: (r.header('Content-Type') or '').split(';')[0] if r.headers else None
        if (own.code, ct(own)) != (res.code, ct(res)):
            bad('embedded-route-differs', 'the serving application\'s own route answers %s (%s), the embedded one %s (%s)'
                % (own.status, ct(own), res.status, ct(res)))
    if handler == 'other_error_kwonly':
        twin = A.twin
        twin.ctl.where, twin.ctl.beh, twin.ctl.raised, twin.ctl.fired = where, beh, None, False
        res2 = wsgi.call(twin.app, route, 'GET', headers=hdrs)
        twin.ctl.beh = None
        acc.transitions += 1
        if res2.code != res.code:
            bad('kwonly-handler-differs', 'the same handler with a positional signature answers %s' % res2.status)


# ---- layer B: histories --------------------------------------------------------------------------

HIST_ALPHABET = [
    ('GET', '/r', None, None),                                  # plain success
    ('GET', '/r', ('raise', 'ValueError', 'ascii'), 'ep'),
    ('GET', '/r', ('raise', 'KeyError', 'markup'), 'm1.request.after'),
    ('GET', '/r', ('http', 'NotFound', 'raise', False), 'ep'),
    ('GET', '/r', ('http', 'Forbidden', 'return', True), 'm0.endpoint.before'),
    ('GET', '/n', ('return', 'str'), 'ep'),
    ('GET', '/nope', None, None),                               # 404
    ('DELETE', '/item', None, None),                            # 405 on a path with two method-restricted routes
    ('POST', '/item', None, None),
    ('GET', '/r', ('raise', 'StrRaises', 'ascii'), 'rn'),
    ('GET', '/r', ('return', 'none'), 'm2.render.before'),
    ('OTHER-APP', 'reraise', None, None),      # another, default-configured Application in the process is made to re-raise
    ('GET', ('/prof', '_prof=1'), None, None),                              # a profiled request (SimpleProfileMiddleware)
    ('GET', ('/prof', '_prof=1'), ('raise', 'ValueError', 'ascii'), 'ep'),  # a profiled request whose endpoint fails
    ('GET', ('/prof', '_prof=1'), ('http', 'NotFound', 'raise', True), 'ep'),
]
PROBES = [('GET', '/r'), ('GET', '/n'), ('GET', '/item'), ('POST', '/item'), ('PUT', '/item'), ('GET', '/nope'),
          ('HEAD', '/item'), ('GET', '/sum/1/x/2'), ('BOOM', '/r'), ('GET', ('/prof', '_prof=1')), ('GET', ('/prof', ''))]


def probe(A):
    out = []
    A.ctl.beh = None
    for m, p in PROBES:
        if m == 'BOOM':
            A.ctl.where, A.ctl.beh, A.ctl.fired = 'ep', ('raise', 'ValueError', 'ascii'), False
            r = wsgi.call(A.app, p, 'GET')
            A.ctl.beh = None
            out.append((m, p, r.status, (r.body or b'')[:40], None, repr(r.raised) if r.raised else None))
            continue
        if isinstance(p, tuple):
            # (the profile report in the body is different every time: status only)
            r = wsgi.call(A.app, p[0], m, query=p[1])
            out.append((m, p, r.status, None if p[1] else r.body, None, repr(r.raised) if r.raised else None))
            continue
        r = wsgi.call(A.app, p, m)
        out.append((m, p, r.status, r.body, r.header('Allow'), repr(r.raised) if r.raised else None))
    return out


def send(A, letter):
    m, p, beh, where = letter
    if m == 'OTHER-APP':
        from clastic import Application
        other = Application([('/boom', lambda: 1 / 0)])
        other.error_handler.reraise_uncaught = True          # what serve() does when the debugger is on
        other.serve(_jk_just_testing=True, use_meta=False, use_static=False, use_reloader=False)
        return wsgi.call(other, '/boom', 'GET')
    A.ctl.where, A.ctl.beh, A.ctl.raised, A.ctl.fired = where, beh, None, False
    r = wsgi.call(A.app, p[0], m, query=p[1]) if isinstance(p, tuple) else wsgi.call(A.app, p, m)
    A.ctl.beh = None
    return r


def run_histories(acc, handler, depth, i, n):
    fresh = probe(App(handler))
    k = 0
    for d in range(1, depth + 1):
        for hist in itertools.product(range(len(HIST_ALPHABET)), repeat=d):
            k += 1
            if k % n != i:
                continue
            if deadline_passed():
                acc.extra['cap_hit'] = 1
                return
            A = App(handler)
            for li in hist:
                send(A, HIST_ALPHABET[li])
                acc.transitions += 1
            got = probe(A)
            acc.transitions += len(PROBES)
            acc.evaluated += 1
            acc.validated += 1
            acc.add('nontrivial')
            acc.outcome('history|%s|depth%d' % (handler, d))
            if got != fresh:
                diff = [(a, b) for a, b in zip(got, fresh) if a != b][0]
                acc.violation('C08:history-changes-behaviour:%s %s' % (diff[0][0], diff[0][1]),
                              'after history %r the probe %s %s answers %r, a fresh application answers %r'
                              % ([HIST_ALPHABET[x] for x in hist], diff[0][0], diff[0][1], diff[0][2:], diff[1][2:]),
                              {'history': list(hist), 'handler': handler})


def nshards(tier):
    return 32


def layer_a_items(tier):
    items = []
    for handler in HANDLERS:
        for where in positions():
            # '/item' is followed by a method-restricted sibling route on the same path
            for route in ('/r', '/n', '/item', '/st', '/n#short-form', '/sub/n'):
                items.append((handler, where, route))
    return items


def shard(tier, i, n, seed):
    common.setup_repo()
    acc = common.Acc()
    apps = {}
    behs = behaviours(tier)
    for k, (handler, where, route) in enumerate(layer_a_items(tier)):
        if k % n != i:
            continue
        if deadline_passed():
            acc.extra['cap_hit'] = 1
            return acc
        if handler not in apps:
            apps[handler] = App(handler)
            if handler == 'other_error_kwonly':
                apps[handler].twin = App('other_error')
        A = apps[handler]
        for beh, bclass in behs:
            accepts = ACCEPTS if (bclass != 'exc' or beh[2] in ('ascii', 'markup', 'surrogate') or handler != 'debug') else ACCEPTS[:2]
            if beh[0] == 'raise' and beh[2] == 'huge':
                accepts = ACCEPTS[:2]
            for accept in accepts:
                check_one(acc, A, handler, beh, bclass, where, route, accept)
        if k % 37 == i % 37:
            acc.sample({'handler': handler, 'where': where, 'route': route, 'behaviours': len(behs)})
    # 404 / 405 under every handler and Accept
    import itertools as _it
    from clastic import application as _ca
    for hk, handler in enumerate(HANDLERS):
        if (hk + 7) % n != i:
            continue
        A = apps.get(handler) or App(handler)
        for ak, accept in enumerate(ACCEPTS):
            # a server that has been up for a long time: the process-wide request counter is past 2**32 / 2**64
            _ca._REQ_ID_ITER = _it.count((0, 2 ** 32 - 5, 2 ** 64 - 5)[ak % 3])
            for m, p, want in (('GET', '/nope', 404), ('PUT', '/item', 405), ('GET', '/nope/<b>', 404),
                               ('GET', '/sum/1//2', (200, 404)), ('GET', '/sum/1/x', 404), ('GET', '/num/' + '9' * 5000, (200, 404)),
                               ('GET', '/num/+ 1', 404), ('GET', '/flt/1e400/x', (200, 404)), ('GET', '/flt//x', (200, 404)),
                               ('GET', '/num/\u0661', (200, 404)),
                               # a slash redirect whose query string is raw bytes no charset decodes
                               ('GET', '/jsonbad', 500), ('HEAD', '/jsonbad', 500), ('GET', '/jsonbad2', 500),
                               ('GET', ('/br', 'name=caf\xe9'), (301, 302, 307, 308)), ('POST', ('/br//', '\xff\xfe=\x80'), (301, 302, 307, 308)),
                               ('HEAD', ('/br', '%'), (301, 302, 307, 308)), ('GET', ('/br/', 'name=caf\xe9'), 200)):
                A.ctl.beh = None
                q = ''
                if isinstance(p, tuple):
                    p, q = p
                res = wsgi.call(A.app, p, m, query=q, headers={'Accept': accept} if accept else None)
                acc.evaluated += 1
                acc.transitions += 1
                acc.validated += 1
                if isinstance(want, int):
                    want = (want,)
                acc.outcome('builtin-%s|%s' % (want[0], handler))
                want_codes = want + (403,) if handler.startswith('other_error') else want
                if handler == 'reraise' and 500 in want and res.raised is not None and res.sr_calls == 0:
                    continue       # the re-raising handler hands the uncaught exception to the server, before any output
                if res.raised is not None or res.code not in want_codes or res.sr_calls != 1:
                    acc.violation('C08:builtin-%s:%s' % (want[0], handler), '%s %s under handler %s gave %r raised=%r'
                                  % (m, p, handler, res.status, res.raised), {'handler': handler, 'path': p, 'method': m, 'query': q})
    depth = 3 if tier == 'quick' else 4
    for hk, handler in enumerate(('default', 'debug', 'broken_render')):
        run_histories(acc, handler, depth if handler == 'default' else depth - 1, i, n)
    return acc


def finish(tier, merged, results):
    oc = merged['outcomes']
    if not merged['violations']:
        for need in ('|escape', '|status', 'history|'):
            if not any(need in k for k in oc):
                raise common.InternalError('vacuous: no outcome with %s' % need)
    return {'bounds': {'behaviours': len(behaviours(tier)), 'positions': len(positions()), 'handlers': HANDLERS,
                       'accepts': ACCEPTS, 'history_alphabet': len(HIST_ALPHABET),
                       'history_depth': 3 if tier == 'quick' else 4, 'probes': len(PROBES)},
            'distinct_nontrivial': len(oc)}


def replay(case):
    common.setup_repo()
    acc = common.Acc()
    if 'history' in case:
        A = App(case['handler'])
        fresh = probe(App(case['handler']))
        for li in case['history']:
            send(A, HIST_ALPHABET[li])
        got = probe(A)
        if got != fresh:
            return False, 'probe answers differ after the history: %r' % ([(a, b) for a, b in zip(got, fresh) if a != b][:2],)
        return True, 'ok'
    if 'behaviour' not in case:
        A = App(case['handler'])
        res = wsgi.call(A.app, case['path'], case['method'], query=case.get('query', ''))
        return (res.raised is None), 'status %r raised %r' % (res.status, res.raised)
    A = App(case['handler'])
    if case['handler'] == 'other_error_kwonly':
        A.twin = App('other_error')
    beh = tuple(case['behaviour'])
    bclass = {'return': 'nonresp', 'raise': 'exc', 'http': 'http'}[beh[0]]
    if beh == ('return', 'response'):
        bclass = 'ok'
    check_one(acc, A, case['handler'], beh, bclass, case['where'], case['route'], case['accept'])
    if acc.violations:
        return False, acc.violations[0]['desc'][:2000]
    return True, 'ok'
