# -*- coding: utf-8 -*-
"""C07 - trailing-slash redirects lead to the same resource in one hop.

Complete product of (route shape, branch/leaf, slash mode, where the mode is
configured, method set) x (segment values with URL-significant characters,
slash defects, query strings, HTTP methods) on the real WSGI callable; every
redirect is followed once and the second response is checked too.
"""
import itertools
import json
import os
import time
from urllib.parse import urlsplit, unquote_to_bytes

from mc import common, wsgi
from ref import dispatch as D
from ref import match as M

ID = 'C07'
LEVEL = 'model_checking'
BUDGET = {'quick': 300, 'thorough': 2400}
RULE = ('product of route configurations x request catalogue, enumerated completely; an evaluation is one request '
        '(plus the follow-up request when a redirect is answered); non-trivial = expected outcome is a redirect or the '
        'route executes; distinct = distinct (mode, placement, shape, defect, expected kind) classes')
ASSUMPTIONS = ['ref/match.py decides which (path, route) pairs match; canonical form = single slashes, one trailing slash',
               'PATH_INFO carries the decoded path as a WSGI server delivers it (utf-8 bytes as latin-1); werkzeug strips '
               'leading repeated slashes before clastic sees the path',
               'query strings are compared after percent-decoding pair by pair (a redirect may normalise escapes of '
               'non-ASCII bytes, it may not change any decoded byte or the pair structure)']

MODES = [M.REDIRECT, M.REWRITE, M.STRICT]
PLACEMENTS = ['app', 'route', 'embed-inherit', 'embed-own', 'cline']
SEGS = ['a', 'a?b', '#', '%', '%41', 'a b', 'a;b=c', 'a&b=c', u'\xe9', '.', '..']
SEGS2 = ['a', 'a?b', '%41']
QUERIES = ['', 'x=1', 'x=%3F&y=a+b', u'\xe9=1'.encode('utf-8').decode('latin-1'), u'\xe9=1', 'a=%C3%A9&&b']
ALL_METHODS = ['GET', 'HEAD', 'POST', 'PUT', 'DELETE', 'OPTIONS', 'TRACE', 'CONNECT', 'PATCH']
SHAPES = ['static', 'single', 'multi', 'typed', 'dotted', 'root', 'file', 'twin']
# twin: like single, but the route is preceded by its opposite twin (the leaf '/x/<a>' in front of the branch '/x/<a>/'
# and the other way round) which admits CONNECT only - passed over by every other request
# file: a StaticFileRoute (the stock route type serving one file) under a leaf or a branch pattern
# root: the pattern '/' of an embedded application - under the prefix it is the branch route '/pre/'
# dotted: a literal segment containing a regular-expression metacharacter.  Whether '/x/v1-0' reaches the route
# '/x/v1.0' is outside C05's quantifier (observation O1: literals are not escaped); C07 only asks that *if* it reaches
# the route the redirect names the canonicalised request path - so for such a path both readings are admissible
DEFECTS = ['canonical', 'no-trailing', 'double-inside', 'double-last', 'leading-double', 'triple-trailing',
           'triple-inside']


def deadline_passed():
    d = os.environ.get('VERIF_DEADLINE')
    return bool(d) and time.time() > float(d)


def pattern_for(shape, branch):
    if shape == 'root':
        return '/'
    base = {'static': '/x', 'file': '/x', 'twin': '/x/<a>', 'single': '/x/<a>', 'multi': '/x/<a+>', 'typed': '/n/<k:int>/t', 'dotted': '/x/v1.0'}[shape]
    return base + ('/' if branch else '')


def seg_tuples(shape, tier):
    if shape == 'root':
        return [[]]
    if shape in ('static', 'file'):
        return [['x']]
    if shape in ('single', 'twin'):
        return [['x', s] for s in SEGS]
    if shape == 'typed':
        return [['n', '7', 't'], ['n', '-3', 't']]
    if shape == 'dotted':
        return [['x', 'v1.0'], ['x', 'v1-0']]
    out = [['x', s] for s in SEGS]
    out += [['x', s, t] for s in SEGS for t in SEGS2]
    return out


def render_path(segs, defect):
    """The raw decoded path a client asks for."""
    if not segs:
        # the mount point itself
        return {'canonical': '/', 'no-trailing': '', 'double-inside': '//', 'double-last': '//', 'leading-double': '/',
                'triple-trailing': '///', 'triple-inside': '///'}[defect]
    if defect == 'canonical':
        return '/' + '/'.join(segs) + '/'
    if defect == 'no-trailing':
        return '/' + '/'.join(segs)
    if defect == 'double-inside':
        return '/' + segs[0] + '//' + '/'.join(segs[1:]) + ('/' if len(segs) > 1 else '')
    if defect == 'double-last':
        if len(segs) < 2:
            return '/' + segs[0] + '//'
        return '/' + '/'.join(segs[:-1]) + '//' + segs[-1] + '/'
    if defect == 'leading-double':
        return '//' + '/'.join(segs) + '/'
    if defect == 'triple-trailing':
        return '/' + '/'.join(segs) + '///'
    if defect == 'triple-inside':
        return '/' + segs[0] + '///' + '/'.join(segs[1:]) + ('/' if len(segs) > 1 else '')
    raise ValueError(defect)


def configs():
    out = []
    for shape in SHAPES:
        for branch in (True, False):
            for mode in MODES:
                for placement in PLACEMENTS:
                    if shape == 'root' and (not branch or not placement.startswith('embed')):
                        continue
                    if shape == 'file' and placement in ('route', 'cline'):
                        continue
                    for methods in ((None,) if shape == 'file' else (None, ['GET'])):
                        out.append((shape, branch, mode, placement, methods))
    return out


class Harness(object):
    def __init__(self):
        from werkzeug.wrappers import Response
        self.seen = []
        seen = self.seen

        def ep_static():
            seen.append({})
            return Response('{}')

        def ep_a(a):
            seen.append({'a': a})
            return Response(json.dumps({'a': a}))

        def ep_k(k):
            seen.append({'k': k})
            return Response(json.dumps({'k': k}))
        self.eps = {'static': ep_static, 'twin': ep_a, 'single': ep_a, 'multi': ep_a, 'typed': ep_k, 'dotted': ep_static, 'root': ep_static}

    def build(self, cfg):
        from clastic import Application, Route, SubApplication
        shape, branch, mode, placement, methods = cfg
        other = common.fresh_str(MODES[(MODES.index(mode) + 1) % 3])
        mode = common.fresh_str(mode)        # equal to clastic's constant, not the same object
        pat = pattern_for(shape, branch)
        ep = self.eps.get(shape)
        mkroute = Route
        if shape == 'file':
            from clastic.static import StaticFileRoute
            seen = self.seen

            class TracedFile(StaticFileRoute):
                def get_file_response(self, request):
                    seen.append({})
                    return super(TracedFile, self).get_file_response(request)
            mkroute = lambda pat, ep, methods=None: TracedFile(pat, os.path.abspath(__file__))
        twin_pat = ('/x/<a>' if branch else '/x/<a>/') if shape == 'twin' else None
        front = [Route(twin_pat, ep, methods=['CONNECT'])] if twin_pat else []
        if placement == 'app':
            # the Route object has been bound before, into an application with another slash mode
            rt = mkroute(pat, ep, methods=methods)
            Application([rt], slash_mode=other)
            Application([('/', Application([rt], slash_mode=MODES[(MODES.index(cfg[2]) + 2) % 3]))], slash_mode=other)
            return Application(front + [rt], slash_mode=mode), ''
        if placement == 'route':
            app = Application([], slash_mode=other)
            if twin_pat:
                app.add(Route(twin_pat, ep, methods=['CONNECT'], slash_mode=mode), inherit_slashes=False)
            app.add(Route(pat, ep, methods=methods, slash_mode=mode), inherit_slashes=False)
            return app, ''
        if placement == 'cline':
            # the bottle-like spelling: Cline(slash_mode=...) and its route() method
            from clastic.cline import Cline
            app = Cline(slash_mode=mode, autorender=False)
            if twin_pat:
                app.route(twin_pat, ('CONNECT',), ep)
            app.route(pat, tuple(methods) if methods else None, ep)
            return app, ''
        if placement == 'embed-inherit':
            inner = Application(front + [mkroute(pat, ep, methods=methods)], slash_mode=other)
            return Application([('/pre', inner)], slash_mode=mode), '/pre'
        if placement == 'embed-own':
            inner = Application(front + [mkroute(pat, ep, methods=methods)], slash_mode=mode)
            return Application([SubApplication('/pre', inner, inherit_slashes=False)], slash_mode=other), '/pre'
        raise ValueError(placement)


def qs_pairs(q):
    """Decoded byte pairs of a raw query string (native latin-1 str)."""
    out = []
    for piece in q.split('&'):
        k, eq, v = piece.partition('=')
        out.append((unquote_to_bytes(k.replace('+', ' ').encode('latin-1')), eq,
                    unquote_to_bytes(v.replace('+', ' ').encode('latin-1'))))
    return out


def expected(cfg, prefix, raw_path, method, literal=None):
    shape, branch, mode, placement, methods = cfg
    pat = prefix + (pattern_for(shape, branch) if literal is None else '/x/' + literal + ('/' if branch else ''))
    eff = '/' + raw_path.lstrip('/')
    table = [{'pattern': pat, 'methods': methods, 'behaviour': 'answer'}]
    if shape == 'twin':
        table.insert(0, {'pattern': prefix + ('/x/<a>' if branch else '/x/<a>/'), 'methods': ['CONNECT'], 'behaviour': 'answer'})
    return D.dispatch(table, mode, eff, method), eff


def check_request(acc, h, app, cfg, prefix, segs, defect, query, method, sigkey, script_name='', literal=None):
    shape, branch, mode, placement, methods = cfg
    if shape == 'dotted' and segs[-1] != 'v1.0' and literal is None:
        # admissible: the path does not reach the route at all, or it is treated like a path of the route
        a1 = common.Acc()
        check_request(a1, h, app, cfg, prefix, segs, defect, query, method, sigkey, script_name, literal='v1.0')
        if a1.violations:
            a2 = common.Acc()
            check_request(a2, h, app, cfg, prefix, segs, defect, query, method, sigkey, script_name, literal=segs[-1])
            a1 = a2 if a2.violations else a1
            if a2.violations:
                for v in a2.violations:
                    acc.violation(v['sig'], v['desc'], v['case'])
        acc.evaluated += 1
        acc.transitions += a1.transitions
        acc.validated += 1
        for k, n in a1.outcomes.items():
            acc.outcome(k, n)
        return
    raw_path = prefix + render_path(segs, defect) if prefix else render_path(segs, defect)
    if prefix and defect == 'leading-double':
        raw_path = '/' + prefix + render_path(segs, 'canonical')
    exp, eff = expected(cfg, prefix, raw_path, method, literal)
    case = {'cfg': list(cfg), 'segs': segs, 'defect': defect, 'query': query, 'method': method, 'script_name': script_name}
    del h.seen[:]
    if script_name == '<dev-server-abs>':
        # absolute-form request target (GET http://localhost/path): the target names the origin, whatever the Host
        # header of the proxy hop says (RFC 7230 5.4)
        script_name = ''
        env0 = wsgi.dev_server_environ(raw_path, method, query, absolute_form=True, headers={'Host': 'proxy.example:3128'})
    elif script_name == '<dev-server>':
        # the request line goes through clastic's own development server code (its request handler builds the environ)
        script_name = ''
        env0 = dev_server_environ(raw_path, method, query)
    else:
        env0 = wsgi.make_environ(raw_path, method, query=query)
        env0['SCRIPT_NAME'] = script_name
    res = wsgi.call(app, None, environ=env0)
    acc.evaluated += 1
    acc.transitions += 1
    acc.validated += 1
    okey = '%s:%s:%s:%s:%s' % (mode, placement, 'branch' if branch else 'leaf', defect, exp['kind'])
    acc.outcome(okey)

    def bad(field, msg):
        acc.violation('C07:%s:%s:%s' % (field, mode, sigkey(segs, query)),
                      '%s; cfg=%r path=%r query=%r method=%s -> %s %s' % (msg, cfg, raw_path, query, method, res.status,
                                                                        res.header('Location')), case)
    if res.raised is not None:
        bad('raised-' + type(res.raised).__name__, 'application raised %r' % (res.raised,))
        return
    is_redirect = res.code in (301, 302, 303, 307, 308)
    if exp['kind'] == 'redirect':
        acc.add('nontrivial')
        if not is_redirect:
            bad('missing-redirect', 'expected a slash redirect')
            return
        if h.seen:
            bad('executed-and-redirected', 'endpoint ran although a redirect was answered')
            return
        loc = res.header('Location') or ''
        u = urlsplit(loc)
        canon = exp['location_path']
        got_path = unquote_to_bytes(u.path).decode('utf-8', 'replace')
        if u.scheme != 'http' or u.netloc != 'localhost':
            bad('location-origin', 'Location %r leaves the origin' % loc)
            return
        if script_name:
            if not got_path.startswith(script_name + '/'):
                bad('location-mount', 'Location %r leaves the mount point %r' % (loc, script_name))
                return
            got_path = got_path[len(script_name):]
        if got_path != canon:
            bad('location-path', 'Location %r denotes path %r, expected %r' % (loc, got_path, canon))
            return
        if u.fragment:
            bad('location-fragment', 'Location %r has a fragment' % loc)
            return
        try:
            same_q = qs_pairs(u.query) == qs_pairs(query) or (not query and not u.query)
        except Exception:
            same_q = False
        if not same_q:
            bad('location-query', 'Location %r changes the query %r' % (loc, query))
            return
        # follow the redirect: one hop, same route, same parameters
        del h.seen[:]
        path2 = unquote_to_bytes(u.path).decode('latin-1')
        if script_name:
            path2 = path2[len(script_name):]
        env = wsgi.make_environ(path2, method, query=u.query, raw_path=True)
        env['SCRIPT_NAME'] = script_name
        res2 = wsgi.call(app, None, environ=env)
        acc.transitions += 1
        exp2, _ = expected(cfg, prefix, canon, method, literal)
        if res2.code in (301, 302, 303, 307, 308):
            bad('second-redirect', 'following the Location %r yields another redirect to %r' % (loc, res2.header('Location')))
            return
        if exp2['kind'] != 'route' or res2.code != 200 or len(h.seen) != 1 or \
                not any(M.same_dict(m, h.seen[0]) for m in exp2['params_options']):
            bad('follow-mismatch', 'following %r gave %s with params %r, expected the route with %r'
                % (loc, res2.status, list(h.seen), exp2.get('params_options')))
        return
    # no redirect expected
    if is_redirect:
        bad('unexpected-redirect', 'a slash redirect was answered (expected %s)' % exp['kind'])
        return
    if exp['kind'] == 'route':
        acc.add('nontrivial')
        if res.code != 200 or len(h.seen) != 1:
            bad('not-executed', 'expected the route to execute (200), endpoint calls %r' % (list(h.seen),))
        elif '//' not in eff and not any(M.same_dict(m, h.seen[0]) for m in exp['params_options']):
            bad('params', 'route received %r, expected one of %r' % (h.seen[0], exp['params_options']))
    elif exp['kind'] in ('404', '405'):
        if res.code != exp['status'] or h.seen:
            bad('status', 'expected %s' % exp['status'])


class _FakeServer(object):
    ssl_context = None
    multithread = False
    multiprocess = False
    server_address = ('localhost', 80)
    shutdown_signal = False


def dev_server_environ(raw_path, method, query):
    import io
    import http.client
    from urllib.parse import quote
    from clastic._werkzeug_serving import WSGIRequestHandler
    hd = WSGIRequestHandler.__new__(WSGIRequestHandler)
    hd.server = _FakeServer()
    hd.command = method
    hd.request_version = 'HTTP/1.1'
    hd.client_address = ('127.0.0.1', 50000)
    hd.rfile = io.BytesIO(b'')
    hd.headers = http.client.HTTPMessage()
    hd.headers['Host'] = 'localhost'
    hd.path = quote(raw_path.encode('utf-8'), safe='/') + ('?' + query if query else '')
    env = hd.make_environ()
    env.setdefault('wsgi.errors', io.StringIO())
    return env


def check_history(acc, h):
    """A GET-only branch route followed by a POST-only leaf route that matches the same paths: whatever was asked
    before (405s included), every request is answered as the table says."""
    import itertools
    from clastic import Application, GET, POST
    from werkzeug.wrappers import Response
    table = [{'pattern': '/x/', 'methods': ['GET'], 'behaviour': 'answer'},
             {'pattern': '/<s>', 'methods': ['POST'], 'behaviour': 'answer'}]
    reqs = [('PUT', '/x'), ('POST', '/x'), ('GET', '/x'), ('DELETE', '/x/'), ('POST', '/x/')]
    for seq in itertools.permutations(reqs, 4):
        app = Application([GET('/x/', lambda: Response('branch')), POST('/<s>', lambda s: Response('leaf ' + s))])
        for j, (method, path) in enumerate(seq):
            exp = D.dispatch(table, M.REDIRECT, path, method)
            res = wsgi.call(app, path, method)
            acc.evaluated += 1
            acc.transitions += 1
            acc.validated += 1
            acc.outcome('history:%s' % exp['kind'])
            ok = res.raised is None
            if ok and exp['kind'] == 'redirect':
                ok = res.code in (301, 302, 303, 307, 308)
            elif ok and exp['kind'] == 'route':
                ok = res.code == 200 and res.body == (b'branch' if exp['index'] == 0 else b'leaf x')
            elif ok:
                ok = res.code == exp['status']
            if not ok:
                acc.violation('C07:history:%s' % exp['kind'], 'after %r the request %s %s was answered %s %r (raised %r), the table '
                              'says %s' % (list(seq[:j]), method, path, res.status, (res.body or b'')[:40], res.raised, exp),
                              {'history': [list(x) for x in seq[:j + 1]]})


def sigkey(segs, query):
    f = []
    if any(c in s for s in segs for c in '?#%;&= ') or any(ord(c) > 127 for s in segs for c in s):
        f.append('special-seg')
    if query:
        f.append('query')
    return '+'.join(f) or 'plain'


def nshards(tier):
    return 32


def work_items(tier):
    """(config index, defect) pairs; each item covers all segs x queries x methods."""
    return [(ci, d) for ci in range(len(configs())) for d in DEFECTS]


def shard(tier, i, n, seed):
    common.setup_repo()
    acc = common.Acc()
    h = Harness()
    cfgs = configs()
    apps = {}
    queries = QUERIES
    for wi, (ci, defect) in enumerate(work_items(tier)):
        if wi % n != i:
            continue
        if deadline_passed():
            acc.extra['cap_hit'] = 1
            return acc
        cfg = cfgs[ci]
        if ci not in apps:
            apps[ci] = h.build(cfg)
        app, prefix = apps[ci]
        for segs in seg_tuples(cfg[0], tier):
            for query in queries:
                for method in ALL_METHODS:
                    check_request(acc, h, app, cfg, prefix, segs, defect, query, method, sigkey)
                if query in ('', 'x=1'):
                    # the application served below a mount point
                    check_request(acc, h, app, cfg, prefix, segs, defect, query, 'GET', sigkey, '/mount')
                # (a request target that begins with '//' is a network-path reference for the vendored server code:
                # its first segment becomes the host - such a request does not reach the route, outside C07)
                if query in ('', 'x=1', 'x=%3F&y=a+b', 'a=%C3%A9&&b') and defect != 'leading-double':
                    check_request(acc, h, app, cfg, prefix, segs, defect, query, 'GET', sigkey, '<dev-server>')
                    if query in ('', 'x=1'):
                        check_request(acc, h, app, cfg, prefix, segs, defect, query, 'GET', sigkey, '<dev-server-abs>')
        if wi == 0:
            check_history(acc, h)
        if wi % 41 == 0:
            acc.sample({'config': list(cfg), 'defect': defect, 'example_path': render_path(seg_tuples(cfg[0], tier)[-1], defect),
                        'queries': len(queries), 'methods': len(ALL_METHODS)})
    return acc


def space_size(tier):
    total = 0
    for cfg in configs():
        total += len(DEFECTS) * len(seg_tuples(cfg[0], tier)) * (len(QUERIES) * len(ALL_METHODS) + 2)
        total += (len(DEFECTS) - 1) * len(seg_tuples(cfg[0], tier)) * 6       # through the development server code
    return total + 120 * 4


def finish(tier, merged, results):
    oc = merged['outcomes']
    if not merged['violations']:
        kinds = set(k.rsplit(':', 1)[1] for k in oc)
        for need in ('redirect', 'route', '404', '405'):
            if need not in kinds:
                raise common.InternalError('vacuous: expected kind %s never occurred' % need)
    return {'space_size': space_size(tier),
            'bounds': {'configs': len(configs()), 'defects': DEFECTS, 'segments': SEGS, 'queries': QUERIES,
                       'methods': ALL_METHODS, 'placements': PLACEMENTS, 'modes': MODES},
            'distinct_nontrivial': len([k for k in oc if k.endswith(':redirect') or k.endswith(':route')]),
            'coverage': {'nontrivial_requests': merged['extra'].get('nontrivial', 0)}}


def replay(case):
    common.setup_repo()
    acc = common.Acc()
    h = Harness()
    if 'history' in case:
        check_history(acc, h)
        if acc.violations:
            return False, acc.violations[0]['desc']
        return True, 'ok'
    cfg = tuple(case['cfg'])
    app, prefix = h.build(cfg)
    check_request(acc, h, app, cfg, prefix, case['segs'], case['defect'], case['query'], case['method'], sigkey,
                  case.get('script_name', ''))
    if acc.violations:
        return False, acc.violations[0]['desc']
    return True, 'ok'
