# -*- coding: utf-8 -*-
"""C17 - the basic and JSON renderers accept every endpoint result.

A value grammar (atoms x containers, nesting depth 2; thorough 3) is
expanded completely and every value is returned by a real endpoint behind
render_basic, render_json, render_json_dev, a streaming JSONRender and a
JSONPRender, for every (format parameter, Accept header) combination.  The
oracle is written from the statement: status 200, content type by the kind
of value, JSON bodies parse back to the (normalised) value, dev mode shows
reprs, JSONP wraps, HTML tables only for tabular shapes; in addition every
response of the shared render_basic object must equal the response of a
freshly constructed renderer (no accumulated state).
"""
import datetime
import itertools
import json
import os
import time

from mc import common, wsgi
from ref import negotiate as N

ID = 'C17'
LEVEL = 'model_checking'
BUDGET = {'quick': 300, 'thorough': 2400}
RULE = ('values = complete expansion of the grammar to the nesting bound; each value x renderer x format x Accept is one '
        'evaluation; non-trivial = container values and text that looks like JSON/HTML; distinct = distinct (renderer, '
        'value class, expected outcome) classes')
ASSUMPTIONS = ['JSON-native = str/int/float/bool/None/list/dict with string keys (no NaN/Infinity); tuples and sets of '
               'such values are expected to serialise as arrays',
               'text that merely starts/ends like JSON or mentions <html outside a document may be labelled either way',
               'HTML tables are only required for tabular shapes (observation O10); Accept ties allow JSON or HTML']

FORMATS = [None, 'json', 'html']
ACCEPTS = [None, 'text/html', 'application/json', '*/*', 'text/html;q=0.5, application/json', 'application/json;q=0.2, text/html',
           'text/plain', 'application/xml;q=0.9, text/html;q=0.1']


def deadline_passed():
    d = os.environ.get('VERIF_DEADLINE')
    return bool(d) and time.time() > float(d)


class WithToDict(object):
    def to_dict(self):
        return {'kind': 'to_dict', 'n': 1}

    def __repr__(self):
        return '<WithToDict>'


class WithAsDict(object):
    def asdict(self):
        return {'kind': 'asdict'}

    def __repr__(self):
        return '<WithAsDict>'


class WithIso(object):
    def isoformat(self):
        return '2020-02-02T02:02:02'

    def __repr__(self):
        return '<WithIso>'


class Plain(object):
    def __repr__(self):
        return '<Plain object "quoted" & <b>>'


class SetList(list):
    """expected list whose order is unspecified (came from a set)"""


def gen_values():
    yield 1
    yield 2


DT = datetime.datetime(2021, 3, 4, 5, 6, 7)

# (name, factory, class) ; class in: text, bytes, scalar, object, generator, response
ATOMS = [
    ('empty-str', lambda: '', 'text'), ('plain-str', lambda: 'plain', 'text'),
    ('json-obj-str', lambda: '{"a": 1}', 'text'), ('json-arr-str', lambda: '[1]', 'text'),
    ('not-json-str', lambda: '{not json', 'text'), ('pseudo-json-str', lambda: '{not json}', 'text'),
    ('padded-json-str', lambda: ' [1] ', 'text'),
    ('html-str', lambda: '<!doctype html><html><body>x</body></html>', 'text'), ('html2-str', lambda: '<html><p>y</p></html>', 'text'),
    ('nonascii-str', lambda: u'\xe9中', 'text'),
    # long text whose non-ASCII characters fall on every alignment of any fixed byte window; bytes that are not UTF-8
    ('long-e-str', lambda: u'a' + u'\xe9' * 200, 'text'), ('long-e2-str', lambda: u'\xe9' * 200, 'text'),
    ('long-cjk-str', lambda: u'ab' + u'\u4e2d' * 120, 'text'), ('long-cjk2-str', lambda: u'a' + u'\u4e2d' * 120, 'text'),
    ('long-html-str', lambda: u'\xe9' * 300 + u'<html><p>late</p></html>', 'text'),
    ('latin1-bytes', lambda: b'caf\xe9 cr\xe8me', 'bytes'), ('binary-bytes', lambda: bytes(bytearray(range(256))), 'bytes'),
    ('bytes', lambda: b'bytes', 'bytes'), ('json-bytes', lambda: b'{"a":1}', 'bytes'), ('empty-bytes', lambda: b'', 'bytes'),
    ('zero', lambda: 0, 'scalar'), ('float', lambda: 1.5, 'scalar'), ('true', lambda: True, 'scalar'), ('none', lambda: None, 'scalar'),
    ('negint', lambda: -7, 'scalar'),
    ('datetime', lambda: DT, 'object'), ('to-dict', WithToDict, 'object'), ('as-dict', WithAsDict, 'object'),
    ('iso', WithIso, 'object'), ('plain-obj', Plain, 'object'), ('generator', gen_values, 'generator'),
]
NATIVE_ATOMS = ['empty-str', 'plain-str', 'json-obj-str', 'html-str', 'nonascii-str', 'zero', 'float', 'true', 'none', 'negint']
HASHABLE = ['plain-str', 'nonascii-str', 'zero', 'float', 'none', 'negint']
SMALL = ['plain-str', 'nonascii-str', 'zero', 'none', 'datetime', 'to-dict', 'plain-obj', 'bytes']
ATOM = dict((n, (f, c)) for n, f, c in ATOMS)


def values(tier):
    """Yields (description, factory, info) with info = {'native': bool, 'tabular': bool, 'kind': ...}"""
    for n, f, c in ATOMS:
        yield [n], f, {'kind': c, 'native': n in NATIVE_ATOMS, 'tabular': False}
    yield ['response'], None, {'kind': 'response', 'native': False, 'tabular': False}
    # responses that are not werkzeug's full Response class: a bare BaseResponse, one of clastic's HTTP errors returned
    yield ['base-response'], None, {'kind': 'response', 'native': False, 'tabular': False}
    yield ['returned-http-error'], None, {'kind': 'response', 'native': False, 'tabular': False}
    import collections
    import types as _types
    # mappings that are not dicts
    for nm, mkm in (('mappingproxy', lambda: _types.MappingProxyType({'k': 'plain', 'n': 1})),
                    ('chainmap', lambda: collections.ChainMap({'k': 'plain'}, {'n': 1})),
                    ('userdict', lambda: collections.UserDict({'k': 'plain', 'n': 1})),
                    ('ordereddict', lambda: collections.OrderedDict([('k', 'plain'), ('n', 1)]))):
        yield [nm], mkm, {'kind': 'container', 'native': False, 'tabular': False, 'mapping': True}
        yield ['dict-of-' + nm], (lambda mkm=mkm: {'o': mkm(), 'p': 1}), {'kind': 'container', 'native': False, 'tabular': False}
    names = [n for n, f, c in ATOMS if c != 'generator']

    def mk(n):
        return ATOM[n][0]()
    # depth 1 containers
    yield ['dict', []], (lambda: {}), {'kind': 'container', 'native': True, 'tabular': True}
    yield ['list', []], (lambda: []), {'kind': 'container', 'native': True, 'tabular': True}
    for n in names:
        native = n in NATIVE_ATOMS
        scalar = ATOM[n][1] in ('text', 'scalar')
        yield ['dict', [n]], (lambda n=n: {'k': mk(n)}), {'kind': 'container', 'native': native, 'tabular': scalar}
        yield ['list', [n]], (lambda n=n: [mk(n)]), {'kind': 'container', 'native': native, 'tabular': scalar}
        yield ['tuple', [n]], (lambda n=n: (mk(n),)), {'kind': 'container', 'native': native, 'tabular': scalar, 'tuple': True}
    for a, b in itertools.product(SMALL, repeat=2):
        native = a in NATIVE_ATOMS and b in NATIVE_ATOMS
        scalar = all(ATOM[x][1] in ('text', 'scalar') for x in (a, b))
        yield ['dict', [a, b]], (lambda a=a, b=b: {'k1': mk(a), 'k2': mk(b)}), {'kind': 'container', 'native': native, 'tabular': scalar}
        yield ['list', [a, b]], (lambda a=a, b=b: [mk(a), mk(b)]), {'kind': 'container', 'native': native, 'tabular': scalar}
    for a, b in itertools.combinations(HASHABLE, 2):
        yield ['set', [a, b]], (lambda a=a, b=b: set([mk(a), mk(b)])), {'kind': 'container', 'native': False, 'setlike': True, 'tabular': False}
    for a in HASHABLE:
        yield ['set', [a]], (lambda a=a: set([mk(a)])), {'kind': 'container', 'native': False, 'setlike': True, 'tabular': False}
        yield ['frozenset', [a]], (lambda a=a: frozenset([mk(a)])), {'kind': 'container', 'native': False, 'setlike': True, 'tabular': False}
    # depth 2
    inner = [('d', lambda x: {'i': x}), ('l', lambda x: [x, x]), ('t', lambda x: (x,)), ('s', None)]
    for a in SMALL:
        native = a in NATIVE_ATOMS
        scalar = ATOM[a][1] in ('text', 'scalar')
        for tag, wrap in inner:
            if wrap is None:
                if a not in HASHABLE:
                    continue
                wrap = lambda x: set([x])
                nat = False
            else:
                nat = native
            yield ['dict-of-' + tag, [a]], (lambda a=a, wrap=wrap: {'o': wrap(mk(a)), 'p': 1}), {'kind': 'container', 'native': nat and tag != 's', 'tabular': False, 'setlike': tag == 's'}
            yield ['list-of-' + tag, [a]], (lambda a=a, wrap=wrap: [wrap(mk(a)), wrap(mk(a))]), {'kind': 'container', 'native': nat and tag != 's', 'tabular': scalar and tag in ('d', 'l', 't'), 'setlike': tag == 's'}
    if tier == 'thorough':
        for a, b in itertools.product(names, repeat=2):
            if a in SMALL and b in SMALL:
                continue
            native = a in NATIVE_ATOMS and b in NATIVE_ATOMS
            scalar = all(ATOM[x][1] in ('text', 'scalar') for x in (a, b))
            yield ['dict', [a, b]], (lambda a=a, b=b: {'k1': mk(a), 'k2': mk(b)}), {'kind': 'container', 'native': native, 'tabular': scalar}
            yield ['list', [a, b]], (lambda a=a, b=b: [mk(a), mk(b)]), {'kind': 'container', 'native': native, 'tabular': scalar}
    if True:
        for a in SMALL:
            native = a in NATIVE_ATOMS
            yield ['depth3', [a]], (lambda a=a: {'x': [{'y': (mk(a), [mk(a)])}], 'z': {'w': {'v': mk(a)}}}), {'kind': 'container', 'native': native, 'tabular': False}
            yield ['depth3-list', [a]], (lambda a=a: [[[mk(a)]], [{'q': [mk(a), None]}]]), {'kind': 'container', 'native': native, 'tabular': False}


def norm(v):
    """What a dev-mode JSON rendering of v must parse back to."""
    import collections.abc as _abc
    if isinstance(v, _abc.Mapping):
        return dict((k, norm(x)) for k, x in v.items() if isinstance(k, str))
    if isinstance(v, (set, frozenset)):
        return SetList(norm(x) for x in v)
    if isinstance(v, (list, tuple)):
        return [norm(x) for x in v]
    if isinstance(v, bytes):
        return list(v)
    if isinstance(v, (str, int, float, bool)) or v is None:
        return v
    if isinstance(v, datetime.datetime):
        return v.isoformat()
    if callable(getattr(v, 'to_dict', None)):
        return norm(v.to_dict())
    if callable(getattr(v, 'asdict', None)):
        return norm(v.asdict())
    if callable(getattr(v, 'isoformat', None)):
        return v.isoformat()
    return repr(v)


def jeq(exp, got):
    if isinstance(exp, SetList):
        if not isinstance(got, list) or len(got) != len(exp):
            return False
        rest = list(got)
        for e in exp:
            for i, g in enumerate(rest):
                if jeq(e, g):
                    del rest[i]
                    break
            else:
                return False
        return True
    if isinstance(exp, dict):
        return isinstance(got, dict) and set(exp) == set(got) and all(jeq(exp[k], got[k]) for k in exp)
    if isinstance(exp, list):
        return isinstance(got, list) and len(exp) == len(got) and all(jeq(a, b) for a, b in zip(exp, got))
    if isinstance(exp, bool) or isinstance(got, bool):
        return exp is got
    if isinstance(exp, float) or isinstance(got, float):
        return isinstance(got, (int, float)) and isinstance(exp, (int, float)) and float(exp) == float(got)
    return type(exp) is type(got) and exp == got


def has_unknown(v):
    """contains an object only dev mode can serialise (by repr)"""
    if isinstance(v, dict):
        return any(has_unknown(x) for x in v.values())
    if isinstance(v, (list, tuple, set, frozenset)):
        return any(has_unknown(x) for x in v)
    return isinstance(v, Plain)


def text_class(raw):
    """raw: bytes.  'json' | 'html' | 'plain' | 'json-or-plain' | 'html-or-plain'"""
    try:
        t = raw.decode('utf-8')
    except UnicodeDecodeError:
        return 'plain'
    if t == t.strip() and t[:1] in '{[' and t:
        try:
            v = json.loads(t)
            if isinstance(v, (dict, list)):
                return 'json'
        except ValueError:
            pass
    st = t.strip()
    if st[:1] in ('{', '[') and st[-1:] in ('}', ']'):
        return 'json-or-plain'
    low = t.lower()
    if low.lstrip().startswith('<!doctype html') or low.lstrip().startswith('<html'):
        return 'html'
    if '<html' in low:
        return 'html-or-plain'
    return 'plain'


class Apps(object):
    def __init__(self):
        from clastic import Application, render_basic, render_json, render_json_dev
        from clastic.render import JSONRender, JSONPRender, BasicRender
        from werkzeug.wrappers import Response
        self.Response = Response
        self.BasicRender = BasicRender
        self.current = None
        outer = self

        def ep():
            return outer.current()

        def ep_doc():
            """Summary with 10% off, %s and %(name)s, {braces} {0}, <b>markup</b> & "quotes".

            See https://example.com/docs?a=1&b=2 and www.example.org for more - 100%.
            """
            return outer.current()
        ns = {'outer': outer}
        exec('def ep_nomodule():\n    return outer.current()\n', ns)
        ep_nomodule = ns['ep_nomodule']
        if ep_nomodule.__module__ is not None:
            raise common.InternalError('exec-defined endpoint has a module name')
        self.app = Application([('/basicexec', ep_nomodule, render_basic),
                                ('/basic', ep, render_basic), ('/basicdoc', ep_doc, render_basic), ('/json', ep, render_json), ('/jsondev', ep, render_json_dev),
                                ('/stream', ep, JSONRender(streaming=True, dev_mode=True)),
                                ('/jsonp', ep, JSONPRender(dev_mode=True)),
                                # the documented encoding= argument: the body must be what the declared charset says
                                ('/jsonl1', ep, JSONRender(dev_mode=True, encoding='latin-1')),
                                ('/streaml1', ep, JSONRender(streaming=True, dev_mode=True, encoding='iso-8859-1')),
                                ('/jsonpl1', ep, JSONPRender(dev_mode=True, encoding='latin-1'))])
        from clastic.middleware import GzipMiddleware
        # the renderers behind GzipMiddleware: what the client receives, decoded, is what the renderer produced, and
        # Content-Length is the number of bytes sent
        self.gz_app = Application([('/basic', ep, render_basic), ('/json', ep, render_json_dev)], middlewares=[GzipMiddleware()])
        from clastic.middleware import HTTPCacheMiddleware
        from clastic.middleware.stats import StatsMiddleware
        # every renderer behind the stock client-cache and stats middlewares: same status, same body
        self.cache_app = Application([('/basic', ep, render_basic), ('/jsondev', ep, render_json_dev),
                                      ('/stream', ep, JSONRender(streaming=True, dev_mode=True)), ('/jsonp', ep, JSONPRender(dev_mode=True))],
                                     middlewares=[HTTPCacheMiddleware(max_age=30), StatsMiddleware()])
        from clastic.middleware import ContextProcessor, SimpleContextProcessor
        # the renderers behind the stock context processors: a value that is not a mutable mapping is none of their
        # business and is rendered exactly as without them
        self.ctx_app = Application([('/basic', ep, render_basic), ('/json', ep, render_json_dev)], resources={'zq_res': 'r'},
                                   middlewares=[ContextProcessor(defaults={'zq_default': 1}), ])
        self.sctx_app = Application([('/basic', ep, render_basic), ('/json', ep, render_json_dev)], resources={'zq_res': 'r'},
                                    middlewares=[SimpleContextProcessor('zq_res', zq_default=2)])
        self.ep = ep

    def fresh_basic(self):
        from clastic import Application
        return Application([('/basic', self.ep, self.BasicRender())])


def html_wanted(fmt, accept):
    """'html' | 'json' | 'either'"""
    if fmt == 'html':
        return 'html'
    if fmt == 'json':
        return 'json'
    items = N.parse_accept(accept)
    if items is None:
        return 'json'
    if items == 'malformed':
        return 'either'
    qh, qj = N.quality(items, 'text/html'), N.quality(items, 'application/json')
    if qh > qj:
        return 'html'
    if qj > qh:
        return 'json'
    if qh == 0:
        return 'json'
    return 'either'


def check_value(acc, A, desc, factory, info, fresh_cache):
    Response = A.Response
    if info['kind'] == 'response':
        if desc[0] == 'base-response':
            from werkzeug.wrappers import BaseResponse

            def factory():
                return BaseResponse('direct response', status=202, mimetype='text/x-direct')
        elif desc[0] == 'returned-http-error':
            from clastic.errors import Conflict

            def factory():
                return Conflict('direct response')
        else:
            def factory():
                return Response('direct response', status=202, mimetype='text/x-direct')
    A.current = factory
    sample_value = factory()
    kind = info['kind']
    vname = desc[0] if kind != 'container' else 'container'
    for gz_route in ('/basic', '/json'):
        for fmt in (None, 'html'):
            q = 'format=' + fmt if fmt else ''
            plain = wsgi.call(A.gz_app, gz_route, 'GET', query=q)
            res = wsgi.call(A.gz_app, gz_route, 'GET', query=q, headers={'Accept-Encoding': 'gzip'})
            acc.evaluated += 1
            acc.transitions += 2
            acc.validated += 1
            case = {'value': desc, 'route': gz_route, 'format': fmt, 'accept': None, 'callback': None, 'method': 'GET', 'gzip': True}
            if info['kind'] == 'generator' or plain.raised is not None or res.raised is not None:
                continue
            body = res.body or b''
            cl = res.header('Content-Length')
            msg = None
            if cl is not None and int(cl) != len(body):
                msg = ('gzip-content-length', 'Content-Length %s, %d bytes sent' % (cl, len(body)))
            else:
                if (res.header('Content-Encoding') or '').lower() == 'gzip':
                    import gzip as _gz
                    try:
                        body = _gz.decompress(body)
                    except Exception as e:
                        msg = ('gzip-body', 'body is not gzip: %s' % e)
                if msg is None and (res.code, body) != (plain.code, plain.body or b''):
                    msg = ('gzip-differs', 'decoded response differs from the one sent without compression')
            if msg:
                acc.violation('C17:%s:%s:%s' % (msg[0], gz_route.strip('/'), desc[0] if info['kind'] == 'container' else vname),
                              '%s; value %r via %s?%s behind GzipMiddleware -> %s' % (msg[1], desc, gz_route, q, res.status), case)
    if info['kind'] != 'generator':
        for c_route, q in (('/basic', ''), ('/jsondev', ''), ('/stream', ''), ('/jsonp', ''), ('/jsonp', 'callback=cb9')):
            plain = wsgi.call(A.app, c_route, 'GET', query=q)
            res = wsgi.call(A.cache_app, c_route, 'GET', query=q)
            acc.evaluated += 1
            acc.transitions += 2
            acc.validated += 1
            case = {'value': desc, 'route': c_route, 'format': None, 'accept': None, 'callback': q or None, 'method': 'GET', 'cache_app': True}
            if plain.raised is not None:
                continue
            if res.raised is not None or (res.code, res.body) != (plain.code, plain.body):
                acc.violation('C17:behind-cache:%s:%s' % (c_route.strip('/'), desc[0] if info['kind'] == 'container' else vname),
                              'value %r via %s?%s behind HTTPCacheMiddleware + StatsMiddleware -> %s %r %r, without them %s %r'
                              % (desc, c_route, q, res.status, res.raised, (res.body or b'')[:80], plain.status, (plain.body or b'')[:80]), case)
    from collections.abc import MutableMapping
    if info['kind'] != 'generator' and not isinstance(sample_value, MutableMapping):
        for cname, capp in (('ContextProcessor', A.ctx_app), ('SimpleContextProcessor', A.sctx_app)):
            for c_route in ('/basic', '/json'):
                for fmt in (None, 'html'):
                    q = 'format=' + fmt if fmt else ''
                    plain = wsgi.call(A.app if c_route == '/basic' else A.gz_app, c_route, 'GET', query=q)
                    res = wsgi.call(capp, c_route, 'GET', query=q)
                    acc.evaluated += 1
                    acc.transitions += 2
                    acc.validated += 1
                    case = {'value': desc, 'route': c_route, 'format': fmt, 'accept': None, 'callback': None, 'method': 'GET', 'ctxproc': cname}
                    if plain.raised is not None:
                        continue
                    if res.raised is not None or (res.code, res.body, res.header('Content-Type')) != (plain.code, plain.body, plain.header('Content-Type')):
                        acc.violation('C17:behind-%s:%s:%s' % (cname, c_route.strip('/'), desc[0] if info['kind'] == 'container' else vname),
                                      'value %r via %s?%s behind %s -> %s %r %r, without it %s %r' % (desc, c_route, q, cname, res.status, res.raised,
                                                                                                (res.body or b'')[:80], plain.status, (plain.body or b'')[:80]), case)
    for route in ('/basic', '/basic#POST', '/basic#POSTFORM', '/basic#DELETE', '/basicdoc', '/basicexec', '/json', '/jsondev', '/stream', '/jsonp', '/jsonl1', '/streaml1', '/jsonpl1'):
        route, _, method = route.partition('#')
        method = method or 'GET'
        combos = [(f, a, cb) for f in FORMATS for a in ACCEPTS for cb in (None,)] if route == '/basic' else \
                 [(f, a, None) for f in (None, 'html') for a in (None, 'text/html')] if route in ('/basicdoc', '/basicexec') else \
                 [(None, a, cb) for a in (None, 'text/html') for cb in ((None, 'cb9', '') if route.startswith('/jsonp') else (None,))]
        if method == 'DELETE':
            combos = [(f, a, None) for f in FORMATS for a in (None, 'text/html', 'application/json')]
        form_body = b''
        if method == 'POSTFORM':
            # a form whose fields happen to be named like the renderer's query parameter: the body of a request is
            # the endpoint's business, the representation is chosen by the URL and the Accept header
            combos = [(f, a, None) for f in (None, 'html', 'json') for a in (None, 'text/html', 'application/json')]
            form_body = b'format=paperback&title=x&callback=cbform'
        for fmt, accept, cb in combos:
            q = '&'.join(x for x in ('format=' + fmt if fmt else '', 'callback=' + cb if cb is not None else '') if x)
            hdrs = {'Accept': accept} if accept else None
            if form_body:
                hdrs = dict(hdrs or {}, **{'Content-Type': 'application/x-www-form-urlencoded'})
                res = wsgi.call(A.app, route, 'POST', query=q, headers=hdrs, body=form_body)
            else:
                res = wsgi.call(A.app, route, method, query=q, headers=hdrs)
            acc.evaluated += 1
            acc.transitions += 1
            acc.validated += 1
            case = {'value': desc, 'route': route, 'format': fmt, 'accept': accept, 'callback': cb, 'method': method}
            ct = (res.header('Content-Type') or '').split(';')[0].strip() if res.headers else None

            def bad(k, msg):
                acc.violation('C17:%s:%s%s:%s' % (k, route.strip('/'), '' if method == 'GET' else '-' + method, vname if kind != 'container' else desc[0]),
                              '%s; value %r (%r) via %s?%s Accept=%r -> %s %s %r'
                              % (msg, desc, sample_value if kind != 'generator' else 'generator', route, q, accept, res.status, ct,
                                 (res.body or b'')[:120]), case)
            acc.outcome('%s|%s|%s' % (route.strip('/'), vname, res.code))
            if kind == 'container' or (kind == 'text' and text_class(sample_value.encode('utf-8')) != 'plain'):
                acc.add('nontrivial')
            if res.raised is not None:
                bad('raised-%s' % type(res.raised).__name__, 'application raised %r' % (res.raised,))
                continue
            body = res.body or b''
            if kind == 'response':
                if desc[0] == 'returned-http-error':
                    if res.code != 409 or b'direct response' not in body:
                        bad('response-altered', 'an HTTP error returned by the endpoint was rendered instead of being the response')
                elif res.code != 202 or body != b'direct response' or ct != 'text/x-direct':
                    bad('response-altered', 'a Response returned by the endpoint was not passed through')
                continue
            if route in ('/basic', '/basicdoc', '/basicexec'):
                judge_basic(A, bad, res, ct, body, sample_value, info, fmt, accept, factory,
                            fresh_cache if route == '/basic' else None, q, hdrs, desc)
            else:
                judge_json(bad, res, ct, body, sample_value, info, route, cb)



def judge_basic(A, bad, res, ct, body, value, info, fmt, accept, factory, fresh_cache, q, hdrs, desc):
    kind = info['kind']
    if kind in ('text', 'bytes'):
        raw = value.encode('utf-8') if isinstance(value, str) else value
        if res.code != 200:
            bad('status-%s' % res.code, 'text result must be a 200')
            return
        if body != raw:
            bad('text-body', 'text body altered')
            return
        cls = text_class(raw)
        allowed = {'json': ['application/json'], 'html': ['text/html'], 'plain': ['text/plain'],
                   'json-or-plain': ['application/json', 'text/plain'], 'html-or-plain': ['text/html', 'text/plain']}[cls]
        if ct not in allowed:
            bad('text-type-%s' % cls, 'text of class %s labelled %s' % (cls, ct))
        return
    if kind in ('scalar', 'object', 'generator'):
        if res.code != 200:
            bad('status-%s' % res.code, 'non-container result must be a 200')
            return
        if ct != 'text/plain':
            bad('scalar-type', 'labelled %s, expected text/plain' % ct)
        if kind != 'generator' and body.decode('utf-8', 'replace') != str(value):
            bad('scalar-body', 'body is not str(value)')
        return
    # containers
    want = html_wanted(fmt, accept)
    if want in ('html', 'either') and not info['tabular']:
        if want == 'html':
            return          # non-tabular shapes in HTML are outside the property (O10)
        if ct == 'text/html' or res.code != 200:
            return
    if res.code != 200:
        bad('status-%s' % res.code, 'container result must be a 200')
        return
    if ct == 'text/html':
        if want == 'json':
            bad('html-not-asked', 'HTML table although the request asked for JSON')
            return
        if b'<table' not in body or not body.lstrip().startswith(b'<html'):
            bad('html-table', 'text/html body without a table')
            return
        # the shared renderer must not accumulate state: a fresh renderer answers identically
        if fresh_cache is None:
            return
        key = (json.dumps(desc), q, json.dumps(hdrs))
        fb = fresh_cache.get(key)
        if fb is None:
            fr = wsgi.call(A.fresh_basic(), '/basic', 'GET', query=q, headers=hdrs)
            fb = fresh_cache[key] = fr.body
        if fb != body:
            bad('html-stateful', 'HTML differs from what a freshly constructed renderer returns (%d vs %d bytes)' % (len(body), len(fb or b'')))
        return
    if ct != 'application/json':
        bad('container-type', 'container rendered as %s' % ct)
        return
    if want == 'html':
        bad('json-not-html', 'JSON although the request asked for HTML and the value is tabular')
        return
    try:
        got = json.loads(body.decode('utf-8'))
    except ValueError as e:
        bad('json-invalid', 'invalid JSON: %s' % e)
        return
    if not jeq(norm(value), got):
        bad('json-value', 'JSON parses to %r, expected %r' % (got, norm(value)))


def judge_json(bad, res, ct, body, value, info, route, cb):
    kind = info['kind']
    dev = route in ('/jsondev', '/stream', '/jsonp', '/jsonl1', '/streaml1', '/jsonpl1')
    serialisable = dev or not has_unknown(value)
    if kind == 'generator':
        return           # generators are exhausted by iteration; outside the JSON clause
    if not serialisable:
        return           # non-dev renderers may refuse unknown objects
    if res.code != 200:
        bad('status-%s' % res.code, 'JSON renderer failed for a serialisable value')
        return
    # a client decodes by the charset the Content-Type declares
    charset = 'utf-8'
    for part in (res.header('Content-Type') or '').split(';')[1:]:
        k, _, v = part.strip().partition('=')
        if k.lower() == 'charset' and v:
            charset = v.strip('"')
    want_cs = 'utf-8' if not route.endswith('l1') else ('iso-8859-1' if route == '/streaml1' else 'latin-1')
    if charset.lower() != want_cs:
        bad('json-charset-label', 'declared charset %r, the renderer was given %r' % (charset, want_cs))
    try:
        text = body.decode(charset)
    except (UnicodeDecodeError, LookupError) as e:
        bad('json-undecodable', 'body cannot be decoded by the declared charset %s: %s' % (charset, e))
        return
    if cb:
        if ct != 'application/javascript':
            bad('jsonp-type', 'JSONP labelled %s' % ct)
        if not (text.startswith(cb + '(') and text.endswith(');')):
            bad('jsonp-wrap', 'JSONP body is not cb(...);')
            return
        text = text[len(cb) + 1:-2]
    elif ct != 'application/json':
        bad('json-type', 'labelled %s' % ct)
    try:
        got = json.loads(text)
    except ValueError as e:
        bad('json-invalid', 'invalid JSON: %s' % e)
        return
    if not jeq(norm(value), got):
        bad('json-value', 'JSON parses to %r, expected %r' % (got, norm(value)))


def nshards(tier):
    return 16


def shard(tier, i, n, seed):
    common.setup_repo()
    acc = common.Acc()
    A = Apps()
    fresh_cache = {}
    for k, (desc, factory, info) in enumerate(values(tier)):
        if k % n != i:
            continue
        if deadline_passed():
            acc.extra['cap_hit'] = 1
            break
        check_value(acc, A, desc, factory, info, fresh_cache)
        if k % 41 == 0:
            acc.sample({'value': desc, 'info': info})
    return acc


def finish(tier, merged, results):
    oc = merged['outcomes']
    if not merged['violations']:
        if not any(k.startswith('basic|container|200') for k in oc):
            raise common.InternalError('vacuous')
    nv = sum(1 for _ in values(tier))
    return {'bounds': {'values': nv, 'nesting_depth': 3, 'formats': FORMATS, 'accepts': ACCEPTS,
                       'renderers': ['render_basic', 'render_json', 'render_json_dev', 'streaming', 'jsonp']},
            'distinct_nontrivial': merged['extra'].get('nontrivial', 0)}


def replay(case):
    common.setup_repo()
    acc = common.Acc()
    A = Apps()
    for desc, factory, info in values('thorough'):
        if desc == case['value']:
            check_value(acc, A, desc, factory, info, {})
            break
    bad = [v for v in acc.violations if v['case'].get('route') == case.get('route') and v['case'].get('format') == case.get('format')
           and v['case'].get('accept') == case.get('accept') and v['case'].get('method', 'GET') == case.get('method', 'GET')]
    if bad:
        return False, bad[0]['desc'][:2000]
    return True, 'ok'
