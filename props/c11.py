# -*- coding: utf-8 -*-
"""C11 - binding is non-destructive, applications are isolated, add() is atomic.

Explicit-state breadth-first search over operation histories on real
Application / Route / SubApplication objects.  A state is the history that
reaches it (replayed on fresh objects); states are de-duplicated by a
canonical form made of the model routing tables *and* a structural digest of
the real objects.  After every transition every live application is compared
with the model routing table kept by the harness (patterns in order, and the
answers to a probe set predicted by ref/dispatch.py), shared Route objects
are compared with their initial snapshot, and a failing operation must raise
and change nothing.
"""
import itertools
import os
import time

from mc import common, wsgi
from ref import dispatch as D

ID = 'C11'
LEVEL = 'model_checking'
BUDGET = {'quick': 420, 'thorough': 3300}
RULE = ('breadth-first search over histories of operations {new application (4 kinds), failing constructor, add '
        'route/tuple/GET route/sub-application at index None/0/1, failing add (5 kinds)}; transitions replayed on fresh '
        'objects; states merged only when model tables and the structural digest of the real objects coincide; '
        'non-trivial = state with at least two routes in some application; distinct = distinct canonical states')
ASSUMPTIONS = ['the harness model of add(): contiguous insertion at the index, embedded routes prefixed, middlewares '
               'merged outer-first with unique types kept once, serving application resources win',
               'ref/dispatch.py predicts probe answers from the model table']

PROBE_PATHS = ['/r1', '/r2', '/t', '/s/r1', '/s/t', '/s/s/r1', '/s/r2', '/zz']
PROBE_METHODS = ['GET', 'POST', 'PUT']
APP_KINDS = ['K0', 'K1', 'K2', 'K3']
ENTRY_KINDS = ['R1', 'R2', 'T', 'G', 'P']
INDEXES = (None, 0, 1, -1)
FAIL_KINDS = ['unresolved', 'conflict', 'badpattern', 'badmw', 'embedded-2nd', 'badwsgi', 'badwsgi-sig', 'posonly',
              'unresolved-same-fn']
# posonly / unresolved-same-fn use one function object for the whole history: every failing operation is attempted
# twice, and the retry must fail just the same


def deadline_passed():
    d = os.environ.get('VERIF_DEADLINE')
    return bool(d) and time.time() > float(d)


class Model(object):
    """Pure model of the routing tables (no clastic objects): what the harness expects after each operation."""

    KINDS = {'K0': ([], None), 'K1': (['MW1'], 'r1'), 'K2': (['MW2'], 'r2'), 'K3': (['MW1'], None)}
    SPECS = {'R1': [('/r1', None, 'R1')], 'R2': [('/r2', ['POST'], 'R2')], 'T': [('/t', None, 'T')],
             'G': [('/r1', ['GET'], 'G')], 'P': [('/r1', ['POST'], 'P')]}

    def __init__(self):
        self.model = []

    def entry(self, pattern, methods, marker, m, inner_mws=(), inner_res=None, depth=1):
        mws = list(m['mws'])
        for n in inner_mws:
            if n not in mws:
                mws.append(n)
        return {'pattern': pattern, 'methods': methods, 'marker': marker, 'mws': mws,
                'res': inner_res if inner_res is not None else m['res'], 'behaviour': 'answer', 'depth': depth}

    def new_app(self, kind):
        mws, res = self.KINDS[kind]
        m = {'mws': list(mws), 'res': res, 'table': []}
        if kind == 'K3':
            m['table'] = [self.entry('/r1', None, 'R1', m), self.entry('/t', None, 'C1', m)]
        self.model.append(m)

    def add(self, i, kind, index):
        m = self.model[i]
        if isinstance(kind, tuple):
            src = self.model[kind[1]]
            new = [self.entry('/s' + e['pattern'], e['methods'], e['marker'], m, e['mws'], e['res'], e['depth'] + 1)
                   for e in src['table']]
        else:
            new = [self.entry(p, ms, mk, m) for p, ms, mk in self.SPECS[kind]]
        n = len(m['table'])
        # the requested index means what it means for list.insert(): negative counts from the end, out of range clamps
        pos = n if index is None else (min(index, n) if index >= 0 else max(0, n + index))
        m['table'][pos:pos] = new

    def apply(self, op):
        if op[0] == 'new':
            self.new_app(op[1])
        elif op[0] == 'add':
            self.add(op[1], tuple(op[2]) if isinstance(op[2], (list, tuple)) else op[2], op[3])

    def key(self):
        return tuple((tuple(m['mws']), m['res'],
                      tuple((e['pattern'], tuple(e['methods'] or ()), e['marker'], tuple(e['mws']), e['res'], e['depth'])
                            for e in m['table'])) for m in self.model)

    def expected_digest(self):
        out = []
        for m in self.model:
            rows = tuple((e['pattern'], tuple(sorted(D.method_set(e['methods']) or ())), e['marker'], tuple(e['mws']),
                          e['res'], e['depth'], 'redirect') for e in m['table'])
            out.append((rows, tuple(m['mws']), m['res']))
        return tuple(out)


def model_ops(model, max_apps):
    class _W(object):
        pass
    w = _W()
    w.apps = model.model
    w.model = model.model
    return enabled_ops(w, max_apps)


def enumerate_states(depth, max_apps):
    """Breadth-first over the pure model: every distinct model state reachable with <= depth non-failing
    operations, each with one shortest history."""
    start = Model()
    seen = {start.key(): []}
    order = [[]]
    frontier = [[]]
    for d in range(depth):
        nxt = []
        for hist in frontier:
            mo = Model()
            for op in hist:
                mo.apply(op)
            for op in model_ops(mo, max_apps):
                if op[0] in ('fail', 'fail-new'):
                    continue
                m2 = Model()
                for o in hist:
                    m2.apply(o)
                m2.apply(op)
                k = m2.key()
                if k not in seen:
                    seen[k] = hist + [op]
                    order.append(hist + [op])
                    nxt.append(hist + [op])
        frontier = nxt
    return order


class World(object):
    """Fresh real objects + the model, for one history."""

    def __init__(self):
        from clastic import Application, Route, GET, Middleware, SubApplication
        from werkzeug.wrappers import Response
        self.Application, self.Route, self.GET, self.SubApplication = Application, Route, GET, SubApplication
        self.Response = Response

        def mkmw(name):
            class _M(Middleware):
                def request(self, next):
                    resp = next()
                    try:
                        resp.headers.add('X-MW', name)
                    except Exception:
                        pass
                    return resp
            _M.__name__ = name
            return _M
        self.MW = {'MW1': mkmw('MW1'), 'MW2': mkmw('MW2')}

        def ep(marker):
            def f(res='none'):
                return Response('%s:%s' % (marker, res))
            f.marker = marker
            return f
        self.eps = dict((m, ep(m)) for m in ('R1', 'R2', 'T', 'G', 'P', 'F1', 'F2', 'C1'))
        def boomer():
            raise ValueError('boom')
        # an application that takes no part in the history: nothing done to the others may change its behaviour
        def nb():
            from clastic.errors import NotFound
            raise NotFound('not here', is_breaking=False)
        self.bystander = Application([('/boom', boomer), ('/nb', nb)])
        self.boomer = boomer
        ns = {}
        exec('def posonly_ep(request, /):\n    return None\ndef needs_zzz(zzz):\n    return None\n', ns)
        self.posonly_ep, self.needs_zzz = ns['posonly_ep'], ns['needs_zzz']
        self.R1 = Route('/r1', self.eps['R1'])
        self.R2 = Route('/r2', self.eps['R2'], methods=['POST'])
        self.snap = self.snapshot_routes()
        self.apps = []
        self.M = Model()
        self.model = self.M.model          # per app: {'mws': [...], 'res': value|None, 'table': [entry]}

    def snapshot_routes(self):
        out = []
        for r in (self.R1, self.R2):
            out.append((r.pattern, tuple(sorted(r.methods or ())), r.endpoint, tuple(r.middlewares), tuple(sorted(r.resources)),
                        r.slash_mode, r.render, r.render_error, sorted(k for k in vars(r))))
        return out

    # ---- operations ----------------------------------------------------------------
    def new_app(self, kind):
        A = self.Application
        if kind == 'K0':
            app = A()
        elif kind == 'K1':
            app = A(resources={'res': 'r1'}, middlewares=[self.MW['MW1']()])
        elif kind == 'K2':
            app = A(resources={'res': 'r2'}, middlewares=[self.MW['MW2']()])
        else:
            app = A([self.R1, ('/t', self.eps['C1'])], middlewares=[self.MW['MW1']()])
        self.apps.append(app)
        self.M.new_app(kind)

    def make_entry(self, kind):
        if kind == 'R1':
            return self.R1, [('/r1', None, 'R1')]
        if kind == 'R2':
            return self.R2, [('/r2', ['POST'], 'R2')]
        if kind == 'T':
            return ('/t', self.eps['T']), [('/t', None, 'T')]
        if kind == 'G':
            return self.GET('/r1', self.eps['G']), [('/r1', ['GET'], 'G')]
        if kind == 'P':
            from clastic import POST
            return POST('/r1', self.eps['P']), [('/r1', ['POST'], 'P')]
        raise ValueError(kind)

    def add(self, i, kind, index):
        app = self.apps[i]
        if isinstance(kind, tuple):       # ('S', k): embed application k under /s
            k = kind[1]
            entry = self.SubApplication('/s', self.apps[k]) if index != 1 else ('/s', self.apps[k])
        else:
            entry, specs = self.make_entry(kind)
        if index is None:
            app.add(entry)
        else:
            app.add(entry, index)
        self.M.add(i, kind, index)

    def add_failing(self, i, kind):
        """Returns the exception raised (None = the failing operation did not fail)."""
        from clastic import Middleware
        app = self.apps[i]
        Route = self.Route
        try:
            if kind == 'unresolved':
                app.add(Route('/u', lambda zzz: None))
            elif kind == 'conflict':
                class P(Middleware):
                    provides = ('request',)

                    def request(self, next):
                        return next(request=1)
                app.add(Route('/c', self.eps['T'], middlewares=[P()]), 0)
            elif kind == 'badpattern':
                app.add(('nope', self.eps['T']))
            elif kind == 'badmw':
                class B(Middleware):
                    def request(self, request):
                        return None
                app.add(Route('/b', self.eps['T'], middlewares=[B()]), 1)
            elif kind in ('badwsgi', 'badwsgi-sig'):
                # binds cleanly, but the middleware's WSGI wrapper is unusable: add() must raise and change nothing
                class W(Middleware):
                    wsgi_wrapper = 5 if kind == 'badwsgi' else staticmethod(lambda inner: (lambda only_one: None))
                if kind == 'badwsgi':
                    app.add(Route('/r1', self.eps['T'], middlewares=[W()]), 0)
                else:
                    app.add(Route('/t', self.eps['T'], middlewares=[W()]), 0)
            elif kind == 'posonly':
                app.add(Route('/po', self.posonly_ep))
            elif kind == 'unresolved-same-fn':
                app.add(('/uz', self.needs_zzz), 0)
            elif kind == 'embedded-2nd':
                inner = self.Application([('/one', self.eps['F1']), ('/<name>', self.eps['F2'])])
                app.add(self.SubApplication('/<name>', inner), 0)
            elif kind == 'constructor':
                self.Application([self.R1, ('/t', self.eps['T']), Route('/u', lambda zzz: None)])
        except Exception as e:
            return e
        return None

    # ---- observation -----------------------------------------------------------------------
    def digest(self):
        out = []
        for app in self.apps:
            rows = []
            for br in app.routes:
                rows.append((br.pattern, tuple(sorted(br.methods or ())), getattr(br.endpoint, 'marker', '?'),
                             tuple(type(x).__name__ for x in br.middlewares), br.resources.get('res'),
                             len(br.bound_apps), br.slash_mode))
            out.append((tuple(rows), tuple(type(x).__name__ for x in app.middlewares), app.resources.get('res')))
        return tuple(out)

    def model_key(self):
        return self.M.key()

    def check(self):
        """Invariant after every step.  Returns list of (kind, message)."""
        bad = []
        # history: an application outside the history has just answered with a non-breaking error (what a static
        # application does for a missing file); nothing of that may show in any other application
        r = wsgi.call(self.bystander, '/nb', 'GET')
        if r.raised is not None or r.code != 404:
            bad.append(('bystander', 'the bystander application answered its non-breaking route with %s %r' % (r.status, r.raised)))
        if self.snapshot_routes() != self.snap:
            bad.append(('route-object-changed', 'a shared Route object was modified by binding'))
        if self.digest() != self.M.expected_digest():
            bad.append(('structure', 'structure of the real objects %r differs from what the model implies %r'
                        % (self.digest(), self.M.expected_digest())))
        for i, (app, m) in enumerate(zip(self.apps, self.model)):
            got = [r.pattern for r in app.routes]
            want = [e['pattern'] for e in m['table']]
            if got != want:
                bad.append(('table', 'application %d routes %r, model %r' % (i, got, want)))
                continue
            markers = [getattr(r.endpoint, 'marker', '?') for r in app.routes]
            if markers != [e['marker'] for e in m['table']]:
                bad.append(('table-endpoints', 'application %d endpoints %r, model %r' % (i, markers, [e['marker'] for e in m['table']])))
                continue
            for p in PROBE_PATHS:
                for meth in PROBE_METHODS:
                    exp = D.dispatch(m['table'], 'redirect', p, meth)
                    res = wsgi.call(app, p, meth)
                    if res.raised is not None:
                        bad.append(('probe-raised', 'application %d %s %s raised %r' % (i, meth, p, res.raised)))
                        continue
                    if exp['kind'] == 'route':
                        e = m['table'][exp['index']]
                        serving_res = m['res'] if m['res'] is not None else e['res']
                        want_body = ('%s:%s' % (e['marker'], serving_res if serving_res is not None else 'none')).encode()
                        want_mws = sorted(e['mws'])
                        got_mws = sorted(res.header_all('X-MW'))
                        if res.code != 200 or res.body != want_body:
                            bad.append(('probe-answer', 'application %d %s %s answered %s %r, model says %r'
                                        % (i, meth, p, res.status, res.body, want_body)))
                        elif got_mws != want_mws:
                            bad.append(('probe-middlewares', 'application %d %s %s ran middlewares %r, model says %r'
                                        % (i, meth, p, got_mws, want_mws)))
                    elif exp['kind'] in ('404', '405'):
                        if res.code != exp['status']:
                            bad.append(('probe-status', 'application %d %s %s answered %s, model says %s'
                                        % (i, meth, p, res.status, exp['status'])))
        return bad


def check_bystander(w, target):
    """The application `target` goes through the documented development entry point (debugger on, returning before
    the server loop).  An application outside the history, and one created afterwards, must still turn an uncaught
    exception into a 500 response."""
    bad = []
    if target is not None:
        try:
            target.serve(use_debugger=True, use_reloader=False, use_meta=False, use_static=False, use_lint=False,
                         _jk_just_testing=True)
        except Exception as e:
            bad.append(('serve-raised', 'serve() raised %r' % (e,)))
    later = w.Application([('/boom', w.boomer)])
    for name, app in (('bystander', w.bystander), ('later', later)):
        res = wsgi.call(app, '/boom', 'GET')
        if res.raised is not None or res.code != 500:
            bad.append(('isolation-' + name, 'after another application went through serve(), the %s application '
                        'answered its failing route with %s / raised %r instead of a 500 response'
                        % (name, res.status, res.raised)))
    return bad


def check_shared_exception(acc):
    """One HTTP error *instance* (a module-level `BUSY = ServiceUnavailable()`) raised or returned by routes of
    different applications: each application renders it with its own error handler, in whatever order they are asked."""
    import itertools
    from clastic import Application
    from clastic.errors import ErrorHandler, ServiceUnavailable, NotFound

    def handler(tag):
        class H(ErrorHandler):
            def render_error(self, request, _error):
                r = ErrorHandler.render_error(self, request=request, _error=_error)
                r.headers['X-Rendered-By'] = tag
                return r
        return H()
    for how in ('raise', 'return'):
        for breaking in (True, False):
            busy = ServiceUnavailable('busy', is_breaking=breaking)

            def ep():
                if how == 'raise':
                    raise busy
                return busy
            for order in itertools.permutations(['A', 'B', 'C']):
                apps = dict((t, Application([('/x', ep)], error_handler=handler(t))) for t in 'AB')
                apps['C'] = Application([('/sub', apps['A'])], error_handler=handler('C'))
                for tag in order * 2:
                    res = wsgi.call(apps[tag], '/sub/x' if tag == 'C' else '/x', 'GET')
                    acc.transitions += 1
                    acc.validated += 1
                    if res.raised is not None or res.code != 503 or res.header('X-Rendered-By') != tag:
                        acc.violation('C11:shared-exception-instance', 'application %s answered %s rendered by %r (raised %r) for an error '
                                      'instance also used by other applications; order %r, %s, breaking=%r'
                                      % (tag, res.status, res.header('X-Rendered-By') if res.headers else None, res.raised, order, how, breaking),
                                      {'part': 'shared-exception'})
                        return
    acc.outcome('shared-exception')


def check_shared_components(acc):
    """Bundled components used by two applications at once: one Route whose endpoint is a Redirector, bound into an
    application with response-rewriting middlewares and into a plain one; MetaApplications with and without extra
    peripherals.  Whatever one application is asked, the other answers like a freshly built twin."""
    import itertools
    from clastic import Application, Route, MetaApplication
    from clastic.utils import Redirector
    from clastic.middleware import HTTPCacheMiddleware, GzipMiddleware
    from clastic.meta import MetaPeripheral

    def observe(app, path, hdrs=None):
        r = wsgi.call(app, path, 'GET', headers=hdrs)
        return (r.status, sorted((k, v) for k, v in (r.headers or []) if k not in ('Date',)), r.body, repr(r.raised) if r.raised else None)

    def plain_app(rt):
        return Application([rt])
    for first in ('etag', 'conditional', 'gzip'):
        rt = Route('/go', Redirector('/elsewhere', code=301))
        a = Application([rt], middlewares=[HTTPCacheMiddleware(max_age=30), GzipMiddleware()])
        b = plain_app(rt)
        want = observe(plain_app(Route('/go', Redirector('/elsewhere', code=301))), '/go')
        r1 = wsgi.call(a, '/go', 'GET', headers={'Accept-Encoding': 'gzip'} if first == 'gzip' else None)
        if first == 'conditional' and r1.headers:
            et = r1.header('ETag')
            if et:
                wsgi.call(a, '/go', 'GET', headers={'If-None-Match': et})
        got = observe(b, '/go')
        acc.transitions += 3
        acc.validated += 1
        if got != want:
            acc.violation('C11:shared-component:redirector', 'after application A (cache + gzip middlewares) served the shared '
                          'Redirector route (%s), application B answers %r, a fresh twin answers %r' % (first, got[:2], want[:2]),
                          {'part': 'shared-components'})
            return

    # one StaticFileRoute (no explicit mimetype) bound into two applications; the first request anywhere is a
    # revalidation answered 304, a plain GET, or a HEAD - afterwards both applications serve the file like a fresh twin
    import time as _time
    from clastic import StaticFileRoute
    css = os.path.join(os.path.dirname(os.path.abspath(__file__)), '..', 'evidence')
    import tempfile, shutil
    tmpd = tempfile.mkdtemp(prefix='c11-file-')
    try:
        fpath = os.path.join(tmpd, 'style.css')
        with open(fpath, 'w') as f:
            f.write('body { color: red }\n')
        future = _time.strftime('%a, %d %b %Y %H:%M:%S GMT', _time.gmtime(_time.time() + 86400))
        for first in ('conditional-304', 'get', 'head'):
            for first_app in ('A', 'B'):
                rt = StaticFileRoute('/style.css', fpath)
                apps = {'A': Application([rt], middlewares=[HTTPCacheMiddleware(max_age=30)]), 'B': Application([rt])}
                def observe(app, path, hdrs=None, _o=observe):
                    # (Expires moves with the clock: status, type and body are what is compared)
                    o = _o(app, path, hdrs)
                    return (o[0], [kv for kv in o[1] if kv[0] in ('Content-Type', 'Content-Length', 'Last-Modified')], o[2], o[3])
                want = observe(Application([StaticFileRoute('/style.css', fpath)]), '/style.css')
                wsgi.call(apps[first_app], '/style.css', 'HEAD' if first == 'head' else 'GET',
                          headers={'If-Modified-Since': future} if first == 'conditional-304' else None)
                got = observe(apps['B'], '/style.css')
                got_late = observe(Application([rt]), '/style.css')
                acc.transitions += 4
                acc.validated += 2
                for what, g in (('application B', got), ('an application the route is bound into afterwards', got_late)):
                    if g != want:
                        acc.violation('C11:shared-component:file-route', 'one StaticFileRoute in two applications, first request (%s) to %s: '
                                      '%s then answers %r, a fresh twin %r' % (first, first_app, what, g[:2], want[:2]), {'part': 'shared-components'})
                        return
    finally:
        shutil.rmtree(tmpd, ignore_errors=True)

    class Extra(MetaPeripheral):
        title = 'Extra'
        group_key = 'zq_extra'

        def get_context(self):
            return {'zq': 1}

        def get_general_items(self):
            return [('ZQ extra item', 1)]

        def render_main_page_html(self, context):
            return 'ZQ extra section'
    for order in itertools.permutations(['plain1', 'extra', 'plain2']):
        apps = {}
        for tag in order:
            meta = MetaApplication(peripherals=[Extra()]) if tag == 'extra' else MetaApplication()
            apps[tag] = Application([('/_meta/', meta)])
        for tag in order:
            for path in ('/_meta/', '/_meta/json/'):
                r = wsgi.call(apps[tag], path, 'GET')
                acc.transitions += 1
                acc.validated += 1
                has = b'zq_extra' in (r.body or b'') or b'ZQ extra' in (r.body or b'')
                if r.raised is not None or r.code != 200 or has != (tag == 'extra'):
                    acc.violation('C11:shared-component:meta-peripherals', 'meta application %s (constructed in order %r) answers %s '
                                  'with %s, extra peripheral shown: %r' % (tag, order, path, r.status, has), {'part': 'shared-components'})
                    return
    acc.outcome('shared-components')


def check_template_factories(acc):
    """One stock template factory (Mako, Ashes) shared by two applications, templates of different types: whatever is
    bound through it later - successfully, or by an add() that then fails - every route bound earlier keeps answering
    like a freshly built twin."""
    import itertools
    import shutil
    import tempfile
    from clastic import Application
    tmpd = tempfile.mkdtemp(prefix='c11-tmpl-')
    try:
        for name, text in (('page.html', '<html><body>hello ${name}</body></html>'), ('notes.txt', 'hello ${name}'),
                           ('data.json', '{"hello": "${name}"}'), ('page.dust', '<b>{name}</b>')):
            with open(os.path.join(tmpd, name), 'w') as f:
                f.write(text)
        from clastic.render.mako_templates import MakoRenderFactory

        def page():
            return {'name': 'world'}

        def needs_db(db_zq):
            return {'name': db_zq}

        def snap(app, path):
            r = wsgi.call(app, path, 'GET')
            return (r.status, (r.header('Content-Type') or '') if r.headers else None, r.body, repr(r.raised) if r.raised else None)
        names = ['page.html', 'notes.txt', 'data.json']
        for first, later, how in itertools.product(names, names, ('add', 'failing-add', 'other-application', 'failing-other-application')):
            acc.transitions += 3
            acc.validated += 1
            factory = MakoRenderFactory(tmpd)
            site = Application([('/', page, first)], render_factory=factory)
            want = snap(Application([('/', page, first)], render_factory=MakoRenderFactory(tmpd)), '/')
            try:
                if how == 'add':
                    site.add(('/later', page, later))
                elif how == 'failing-add':
                    site.add(('/later', needs_db, later))
                elif how == 'other-application':
                    Application([('/', page, later)], render_factory=factory)
                else:
                    Application([('/', needs_db, later)], render_factory=factory)
            except NameError:
                pass
            got = snap(site, '/')
            if got != want:
                acc.violation('C11:template-factory:mako', 'route rendered by %r through a shared MakoRenderFactory; after %s with %r it answers '
                              '%r, a fresh twin %r' % (first, how, later, got[:2], want[:2]), {'part': 'template-factories'})
                return
    finally:
        shutil.rmtree(tmpd, ignore_errors=True)


def check_cline_apps(acc):
    """The bottle-like spelling: every registering method of a Cline application adds to that application and to no
    other - neither to a second Cline nor to the module-level default application behind the bare decorators."""
    import itertools
    from clastic import cline as _cl
    from clastic.cline import Cline
    verbs = ['route', 'get', 'post', 'put', 'delete', 'patch', 'head']
    http = {'route': 'GET', 'get': 'GET', 'post': 'POST', 'put': 'PUT', 'delete': 'DELETE', 'patch': 'PATCH', 'head': 'HEAD'}
    for v1, v2 in itertools.product(verbs, repeat=2):
        for style in ('decorator', 'direct'):
            apps = {'A': Cline(), 'B': Cline(), 'default': _cl.DEFAULT_APP}
            before = dict((k, list(a.routes)) for k, a in apps.items())
            ok = True
            for name, verb, path in (('A', v1, '/zq-a'), ('B', v2, '/zq-b')):
                fn = (lambda name=name: 'from ' + name)
                try:
                    if style == 'decorator':
                        getattr(apps[name], verb)(path)(fn)
                    else:
                        getattr(apps[name], verb)(path, endpoint=fn) if verb != 'route' else apps[name].route(path, None, fn)
                except Exception as e:
                    acc.violation('C11:cline:%s-raised' % verb, 'Cline.%s(%r) raised %r' % (verb, path, e), {'part': 'cline'})
                    ok = False
            acc.transitions += 2
            acc.validated += 1
            if not ok:
                continue
            for name, verb, path, other in (('A', v1, '/zq-a', '/zq-b'), ('B', v2, '/zq-b', '/zq-a')):
                r = wsgi.call(apps[name], path, http[verb])
                r2 = wsgi.call(apps[name], other, 'GET')
                acc.transitions += 2
                if r.raised is not None or r.code != 200 or (http[verb] != 'HEAD' and r.body != b'from ' + name.encode()):
                    acc.violation('C11:cline:own-route-missing:%s' % verb, 'application %s registered %s via .%s() (%s) and answers %s %s -> %s'
                                  % (name, path, verb, style, http[verb], path, r.status), {'part': 'cline'})
                if r2.code != 404:
                    acc.violation('C11:cline:foreign-route:%s' % verb, 'application %s answers %s for %s, registered on the other '
                                  'application' % (name, r2.status, other), {'part': 'cline'})
            if list(_cl.DEFAULT_APP.routes) != before['default']:
                acc.violation('C11:cline:default-app-changed', 'registering on two Cline applications (.%s / .%s, %s) changed the '
                              'module-level default application: %d -> %d routes' % (v1, v2, style, len(before['default']),
                                                                                    len(_cl.DEFAULT_APP.routes)), {'part': 'cline'})
                del _cl.DEFAULT_APP.routes[:]
                _cl.DEFAULT_APP.routes.extend(before['default'])


def check_render_factories(acc):
    """Applications with render factories of their own: whatever one application's factory has built, loaded or
    remembered never shows in another application - in every order of construction and of first requests, also when
    one application is embedded in the other and when one Route object is bound into both."""
    import itertools
    from clastic import Application, Route
    from clastic.render import AshesRenderFactory
    names = ['page.html', 'other.html']

    def factory(tag):
        f = AshesRenderFactory()
        for nm in names:
            f.register_source(nm, 'template %s of %s: {v}' % (nm, tag))
        return f

    def ep():
        return {'v': 'value'}
    for order in itertools.permutations(['A', 'B', 'C']):
        for shared_route in (False, True):
            rt = Route('/p', ep, 'page.html')
            apps = {}
            for tag in order:
                routes = [rt if shared_route else Route('/p', ep, 'page.html'), ('/o', ep, 'other.html')]
                if tag == 'C' and 'A' in apps:
                    routes.append(('/sub', apps['A']))           # A embedded in C: A's routes keep A's templates
                apps[tag] = Application(routes, render_factory=factory(tag))
            for req_order in itertools.permutations(sorted(apps)):
                for tag in req_order * 2:
                    checks = [('/p', 'page.html', tag), ('/o', 'other.html', tag)]
                    if tag == 'C' and order.index('A') < order.index('C'):
                        checks.append(('/sub/o', 'other.html', 'A'))
                    for path, nm, owner in checks:
                        res = wsgi.call(apps[tag], path, 'GET')
                        acc.transitions += 1
                        acc.validated += 1
                        want = ('template %s of %s: value' % (nm, owner)).encode('ascii')
                        if res.raised is not None or res.code != 200 or res.body != want:
                            acc.violation('C11:render-factory-isolation', 'application %s (constructed in order %r, one Route object '
                                          'shared: %r) answered %s with %s %r, expected %r' % (tag, order, shared_route, path, res.status,
                                                                                                (res.body or b'')[:60], want),
                                          {'part': 'render-factories'})
                            return
    acc.outcome('render-factories')


def enabled_ops(w, max_apps):
    ops = []
    n = len(w.apps)
    if n < max_apps:
        for k in APP_KINDS:
            ops.append(('new', k))
        ops.append(('fail-new',))
    for i in range(n):
        for kind in ENTRY_KINDS:
            for idx in INDEXES:
                ops.append(('add', i, kind, idx))
        for k in range(n):
            if k != i and len(w.model[k]['table']) > 0 and len(w.model[k]['table']) + len(w.model[i]['table']) <= 6:
                for idx in INDEXES:
                    ops.append(('add', i, ('S', k), idx))
        for fk in FAIL_KINDS:
            ops.append(('fail', i, fk))
    return ops


def apply_op(w, op):
    """Returns (failure_expected, exception_or_None)."""
    if op[0] == 'new':
        w.new_app(op[1])
    elif op[0] == 'add':
        kind = tuple(op[2]) if isinstance(op[2], (list, tuple)) else op[2]
        w.add(op[1], kind, op[3])
    elif op[0] == 'fail':
        return True, w.add_failing(op[1], op[2])
    elif op[0] == 'fail-new':
        return True, w_failing_constructor(w)
    return False, None


def w_failing_constructor(w):
    try:
        w.Application([w.R1, ('/t', w.eps['T']), w.Route('/u', lambda zzz: None)])
    except Exception as e:
        return e
    return None


def build(history):
    w = World()
    for op in history:
        apply_op(w, op)
    return w


def step(acc, history, op):
    """Replay history on fresh objects, apply op, check the invariant. Returns the new World or None."""
    try:
        w = build(history)
    except Exception as e:
        acc.violation('C11:op-raised:history:%s' % type(e).__name__, 'replaying the history %r raised %r' % (history, e),
                      {'history': [list(o) for o in history], 'op': list(op)})
        return None
    before = (w.digest(), w.model_key())
    acc.transitions += 1
    case = {'history': [list(o) for o in history], 'op': list(op)}
    try:
        expect_fail, exc = apply_op(w, op)
    except Exception as e:
        acc.violation('C11:op-raised:%s:%s' % (op[0], type(e).__name__), 'operation %r raised %r after %r' % (op, e, history), case)
        return None
    if expect_fail:
        if exc is None:
            acc.violation('C11:failing-op-accepted:%s' % (op[2] if op[0] == 'fail' else 'constructor'),
                          'operation %r was expected to fail but succeeded' % (op,), case)
            return None
        if (w.digest(), w.model_key()) != before:
            acc.violation('C11:failed-op-changed-state:%s' % (op[2] if op[0] == 'fail' else 'constructor'),
                          'failing operation %r (%r) changed the applications: %r -> %r' % (op, exc, before[0], w.digest()), case)
            return None
        # the same operation once more: it fails again and still changes nothing
        try:
            _, exc2 = apply_op(w, op)
        except Exception as e:
            exc2 = e
        acc.transitions += 1
        if exc2 is None or (w.digest(), w.model_key()) != before:
            acc.violation('C11:failing-op-accepted-on-retry:%s' % (op[2] if op[0] == 'fail' else 'constructor'),
                          'operation %r failed with %r, the retry %s' % (op, exc, 'succeeded' if exc2 is None else 'changed the applications'), case)
            return None
    acc.validated += 1
    for kind, msg in w.check():
        acc.violation('C11:%s:%s' % (kind, op[0] if op[0] != 'fail' else 'after-fail-' + op[2]),
                      '%s; history %r then %r' % (msg, history, op), case)
        return None
    if w.apps:
        tgt = w.apps[op[1]] if op[0] in ('add', 'fail') else w.apps[-1]
        digest0 = w.digest()
        for kind, msg in check_bystander(w, tgt):
            acc.violation('C11:%s' % kind, '%s; history %r then %r' % (msg, history, op), case)
            return None
        if w.digest() != digest0:
            acc.violation('C11:structure:after-serve', 'serve() changed the routing tables; history %r then %r' % (history, op), case)
            return None
    if any(e['methods'] for m in w.model for e in m['table']):
        # the probe requests themselves (incl. 405s) must not have changed anything: probe once more
        for kind, msg in w.check():
            acc.violation('C11:%s:after-requests' % kind, '%s; after the probe requests had been served once; history %r then %r'
                          % (msg, history, op), case)
            return None
    return w


def params(tier):
    # (history depth, max live applications)
    return (4, 2) if tier == 'quick' else (5, 3)


def nshards(tier):
    return 32 if tier == 'quick' else 64


def shard(tier, i, n, seed):
    common.setup_repo()
    acc = common.Acc()
    depth, max_apps = params(tier)
    states = enumerate_states(depth - 1, max_apps)
    acc.extra['model_states'] = [len(states)]
    if i == 3 % n:
        check_render_factories(acc)
    if i == 4 % n:
        check_shared_exception(acc)
    if i == 5 % n:
        check_shared_components(acc)
    if i == 6 % n:
        check_cline_apps(acc)
    if i == 7 % n:
        check_template_factories(acc)
    for k, hist in enumerate(states):
        if k % n != i:
            continue
        if deadline_passed():
            acc.extra['cap_hit'] = 1
            return acc
        mo = Model()
        for op in hist:
            mo.apply(op)
        acc.evaluated += 1
        if any(len(m['table']) >= 2 for m in mo.model):
            acc.add('nontrivial')
        for op in model_ops(mo, max_apps):
            w = step(acc, hist, op)
            acc.outcome('%s|depth%d' % (op[0] if op[0] != 'add' else 'add-' + ('sub' if isinstance(op[2], tuple) else op[2]),
                                        len(hist) + 1))
        if k % 211 == i % 211:
            acc.sample({'history': [list(o) for o in hist], 'tables': [[e['pattern'] + ':' + e['marker'] for e in m['table']]
                                                                        for m in mo.model]})
    return acc


def finish(tier, merged, results):
    if not merged['violations'] and merged['evaluated'] < 100:
        raise common.InternalError('vacuous: only %d states' % merged['evaluated'])
    depth, max_apps = params(tier)
    nstates = (merged['extra'].get('model_states') or [0])[0]
    return {'space_size': nstates, 'bounds': {'history_depth': depth, 'max_live_applications': max_apps, 'app_kinds': APP_KINDS,
                       'entries': ENTRY_KINDS + ['SubApplication(other app)'], 'indexes': [None, 0, 1],
                       'failing_kinds': FAIL_KINDS + ['constructor'], 'probes': len(PROBE_PATHS) * len(PROBE_METHODS)},
            'distinct_nontrivial': merged['extra'].get('nontrivial', 0),
            'coverage': {'note': 'states = distinct model states of depth < bound (each expanded with every enabled '
                                 'operation on fresh real objects, so every state of depth <= bound is checked); the '
                                 'structure of the real objects is asserted to be a function of the model state in '
                                 'every state, which is what justifies merging by model state'}}


def replay(case):
    common.setup_repo()
    acc = common.Acc()
    if case.get('part') == 'shared-components':
        check_shared_components(acc)
        return (False, acc.violations[0]['desc'][:3000]) if acc.violations else (True, 'ok')
    if case.get('part') == 'template-factories':
        check_template_factories(acc)
        return (False, acc.violations[0]['desc'][:3000]) if acc.violations else (True, 'ok')
    if case.get('part') == 'cline':
        check_cline_apps(acc)
        return (False, acc.violations[0]['desc'][:3000]) if acc.violations else (True, 'ok')
    if case.get('part') == 'shared-exception':
        check_shared_exception(acc)
        return (False, acc.violations[0]['desc'][:3000]) if acc.violations else (True, 'ok')
    if case.get('part') == 'render-factories':
        check_render_factories(acc)
        return (False, acc.violations[0]['desc'][:3000]) if acc.violations else (True, 'ok')
    hist = [tuple(tuple(x) if isinstance(x, list) else x for x in o) for o in case['history']]
    op = tuple(tuple(x) if isinstance(x, list) else x for x in case['op'])
    step(acc, hist, op)
    if acc.violations:
        return False, acc.violations[0]['desc'][:3000]
    return True, 'ok'
