# -*- coding: utf-8 -*-
"""C04 - name conflicts and reserved-name misuse are rejected at construction.

Complete matrix: every pair of sources that can offer one name (URL binding,
application / route / outer-application resource, built-in, request /
endpoint / render provides of every middleware at every level) for every
name in {a} + the reserved names, plus every placement of a misplaced `next`
or `context`, injected into each of a catalogue of otherwise valid base
configurations, constructed through Application(list), add() and
Route.bind().
"""
import copy
import itertools
import os
import time

from mc import common, chain
from ref import bind as B

ID = 'C04'
LEVEL = 'model_checking'
BUDGET = {'quick': 240, 'thorough': 1800}
RULE = ('base configurations x (name, source pair) injections and misplaced next/context placements, complete product; '
        'one evaluation = one construction attempt; every base configuration is also constructed without the injection '
        '(must be accepted); non-trivial = the reference expects a rejection; distinct = distinct (injection kind, '
        'expected verdict) classes')
ASSUMPTIONS = ['ref/bind.py conflict rules; resource/resource pairs across levels are not conflicts (C10 defines their precedence)',
               'provides are injected only on middlewares that have the function of that phase']

PHASES = B.PHASES
PROVIDES_ATTR = B.PROVIDES_ATTR
NAMES = ('a',) + B.RESERVED + B.UNDELIVERABLE


def deadline_passed():
    d = os.environ.get('VERIF_DEADLINE')
    return bool(d) and time.time() > float(d)


def mw(level, t, phases=(True, True, True)):
    m = {'level': level, 'type': t}
    for ph, on in zip(PHASES, phases):
        m[ph] = {'params': []} if on else None
    return m


def bases(tier):
    out = []
    level_sets = [[], ['app'], ['route'], ['app', 'route'], ['app', 'app'], ['route', 'route'],
                  ['outer'], ['outer', 'app'], ['outer', 'route'], ['outer', 'app', 'route']]
    for ls in level_sets:
        for with_render in (False, True):
            cfg = {'mws': [mw(l, 'T%d' % i) for i, l in enumerate(ls)], 'endpoint': {'params': []},
                   'render': {'params': [['context', 'req']]} if with_render else None,
                   'url': [], 'app_res': [], 'route_res': [], 'outer_res': [], 'embedded': 'outer' in ls}
            out.append(cfg)
            if ls == [] and tier:
                e = copy.deepcopy(cfg)
                e['embedded'] = True
                out.append(e)
    # two instances of one non-unique middleware type at different levels: both stay in the stack, so what both
    # provide conflicts
    for ls in (['app', 'route'], ['outer', 'app'], ['app', 'app']):
        cfg = {'mws': [dict(mw(l, 'N'), unique=False) for l in ls], 'endpoint': {'params': []}, 'render': None,
               'url': [], 'app_res': [], 'route_res': [], 'outer_res': [], 'embedded': 'outer' in ls}
        out.append(cfg)
    return out


def sources_of(cfg):
    s = [('url',), ('app_res',), ('route_res',)]
    if cfg.get('embedded'):
        s.append(('outer_res',))
        s.append(('prefix_url',))       # a binding in the prefix the application is embedded under
    for i, m in enumerate(cfg['mws']):
        for ph in PHASES:
            if m.get(ph):
                s.append(('mw', i, ph))
    return s


def inject(cfg, name, src):
    if src[0] == 'url':
        cfg['url'].append(name)
    elif src[0] == 'prefix_url':
        cfg.setdefault('prefix_url', []).append(name)
    elif src[0] in ('app_res', 'route_res', 'outer_res'):
        cfg[src[0]].append(name)
    else:
        cfg['mws'][src[1]].setdefault(PROVIDES_ATTR[src[2]], []).append(name)


def injections(cfg):
    """(label, mutated cfg)"""
    srcs = sources_of(cfg)
    for name in NAMES:
        reserved = name in B.RESERVED + B.UNDELIVERABLE
        if reserved:
            for s in srcs:
                c = copy.deepcopy(cfg)
                inject(c, name, s)
                yield ('reserved:%s:%s' % (name if name in ('next', 'context') + B.UNDELIVERABLE else 'builtin', s[0]), c)
        else:
            for s1, s2 in itertools.combinations_with_replacement(srcs, 2):
                if s1 == s2 and s1[0] != 'mw':
                    continue
                if s1[0].endswith('_res') and s2[0].endswith('_res'):
                    continue
                if set([s1[0], s2[0]]) == set(['url', 'prefix_url']):
                    continue       # one name bound twice in one pattern: a malformed pattern (C05), not a name conflict
                c = copy.deepcopy(cfg)
                inject(c, name, s1)
                inject(c, name, s2)
                yield ('pair:%s+%s' % (s1[0] if s1[0] != 'mw' else 'mw.' + s1[2], s2[0] if s2[0] != 'mw' else 'mw.' + s2[2]), c)
            # a single source is never a conflict
            for s in srcs:
                c = copy.deepcopy(cfg)
                inject(c, name, s)
                yield ('single:%s' % s[0], c)
    # two conflicts at once (a second name `b`, or a reserved name misused as well): still a NameError
    seconds = [(('url',), ('app_res',)), (('url',), ('route_res',))]
    mwsrc = [x for x in srcs if x[0] == 'mw']
    if mwsrc:
        seconds.append((('app_res',), mwsrc[0]))
        seconds.append((mwsrc[0], mwsrc[-1]))
    for s1, s2 in itertools.combinations_with_replacement(srcs, 2):
        if s1 == s2 and s1[0] != 'mw':
            continue
        if s1[0].endswith('_res') and s2[0].endswith('_res'):
            continue
        if set([s1[0], s2[0]]) == set(['url', 'prefix_url']):
            continue
        for t1, t2 in seconds:
            c = copy.deepcopy(cfg)
            inject(c, 'a', s1)
            inject(c, 'a', s2)
            inject(c, 'b', t1)
            inject(c, 'b', t2)
            yield ('double:%s+%s' % (s1[0], s2[0]), c)
        c = copy.deepcopy(cfg)
        inject(c, 'a', s1)
        inject(c, 'a', s2)
        inject(c, 'request', ('url',))
        yield ('double-reserved:%s+%s' % (s1[0], s2[0]), c)


def misplacements(cfg):
    # next missing / not first in a middleware function
    for i, m in enumerate(cfg['mws']):
        for ph in PHASES:
            if not m.get(ph):
                continue
            for na in (None, 1):
                c = copy.deepcopy(cfg)
                c['mws'][i][ph]['next_at'] = na
                if na == 1:
                    c['mws'][i][ph]['params'] = [['request', 'req']]
                yield ('next-%s:mw.%s' % ('missing' if na is None else 'second', ph), c)
            for role in ('req', 'def', 'kwreq', 'kwdef'):
                c = copy.deepcopy(cfg)
                c['mws'][i][ph]['params'] = [['context', role]]
                yield ('context-%s:mw.%s' % (role, ph), c)
    for role in ('req', 'kwreq'):
        # the same misplacements on functions wrapped by clastic_decorator
        c = copy.deepcopy(cfg)
        c['endpoint']['params'] = [['next', role]]
        c['endpoint']['kind'] = 'decorated'
        yield ('next-%s:endpoint-decorated' % role, c)
        c = copy.deepcopy(cfg)
        c['endpoint']['params'] = [['context', role]]
        c['endpoint']['kind'] = 'decorated'
        yield ('context-%s:endpoint-decorated' % role, c)
    for role in ('req', 'def', 'kwreq', 'kwdef'):
        c = copy.deepcopy(cfg)
        c['endpoint']['params'] = [['next', role]]
        yield ('next-%s:endpoint' % role, c)
        c = copy.deepcopy(cfg)
        c['endpoint']['params'] = [['context', role]]
        yield ('context-%s:endpoint' % role, c)
        if cfg.get('render'):
            c = copy.deepcopy(cfg)
            c['render']['params'] = [['context', 'req'], ['next', role]]
            yield ('next-%s:render' % role, c)


def inner_view(cfg):
    c = copy.deepcopy(cfg)
    c['mws'] = [m for m in c['mws'] if m['level'] != 'outer']
    c['outer_res'] = []
    c['embedded'] = False
    return c


def reference(cfg):
    """Construction happens inside-out: the embedded application alone first, then the serving one."""
    views = [cfg]
    if cfg.get('embedded'):
        views = [inner_view(cfg), cfg]
    for v in views:
        info = B.analyse(v)
        if info['verdict'] != 'accept':
            return info
    return info


def expected_for(label, info):
    """'accept' / 'reject' plus admissible exception names."""
    if label.startswith('next-missing') or label.startswith('next-second'):
        return 'reject', None          # any exception, but at construction
    if label.startswith('context-def'):
        return info['verdict'], info['exc']
    return info['verdict'], info['exc']


def check(acc, h, label, cfg, construct, base=None):
    acc.evaluated += 1
    acc.transitions += 1
    acc.validated += 1
    info = reference(cfg)
    verdict, exc_names = expected_for(label, info)
    if base is not None:
        # history: the valid base configuration is constructed first with the very same middleware classes
        try:
            h.build(base, construct=construct, reuse_types=True)
            acc.transitions += 1
        except Exception as e:
            acc.violation('C04:rejected-valid:base:%s' % type(e).__name__, 'base configuration rejected: %r' % (e,),
                          {'cfg': base, 'label': 'base', 'construct': construct})
    try:
        h.build(cfg, construct=construct, reuse_types=base is not None)
        built = None
    except Exception as e:
        built = e
    got = 'accept' if built is None else 'reject:' + type(built).__name__
    acc.outcome('%s->%s' % (label.split(':')[0], got))
    case = {'cfg': cfg, 'label': label, 'construct': construct, 'base': base}
    if verdict == 'reject':
        acc.add('nontrivial')
        if built is None:
            acc.violation('C04:accepted:%s' % label, 'construction (%s) accepted although %s' % (construct, info['why'] or label), case)
        elif exc_names and type(built).__name__ not in exc_names:
            acc.violation('C04:wrong-exception:%s:%s' % (label, type(built).__name__),
                          'rejected with %r, expected %r (%s)' % (built, exc_names, info['why']), case)
    elif verdict == 'accept':
        if built is not None:
            acc.violation('C04:rejected-valid:%s:%s' % (label, type(built).__name__),
                          'valid configuration rejected with %r' % (built,), case)
        else:
            # a single source must really deliver: run one request and make sure it is served
            res, trace = chain.run_request(h, h.path, 'GET')
            acc.transitions += 1
            if res.raised is not None or res.code != 200:
                acc.violation('C04:valid-config-fails:%s' % label, 'accepted configuration answered %s %r'
                              % (res.status, res.raised), case)


def render_error_items():
    """A render_error function - on a Route or on the application's error handler - is a function outside the
    render phase: one that requires `context` must be rejected where it is installed."""
    out = []
    for where in ('route', 'handler', 'handler-late', 'tuple4', 'add-tuple4', 'route-kw-late'):
        for role in ('req', 'def', 'kwreq', 'none'):
            out.append(('render_error-context-%s:%s' % (role, where), {'where': where, 'role': role}, 'RE'))
    return out


def _render_error_fn(role):
    ns = {}
    sig = {'req': 'request, _error, context', 'def': 'request, _error, context=None',
           'kwreq': 'request, _error, *, context', 'none': 'request, _error'}[role]
    exec('def render_error(%s):\n    return _error\n' % sig, ns)
    return ns['render_error']


def check_render_error(acc, label, spec):
    from clastic import Application, Route
    from clastic.errors import ErrorHandler
    acc.evaluated += 1
    acc.transitions += 1
    acc.validated += 1
    fn = _render_error_fn(spec['role'])
    must_reject = spec['role'] in ('req', 'kwreq')
    from werkzeug.wrappers import Response
    ep = lambda: Response('ok')

    class EH(ErrorHandler):
        def render_error(self, request, _error, **kw):
            return fn(request, _error, **kw)
    # the handler's render_error must carry the very signature under test
    EH.render_error = staticmethod(fn)
    try:
        if spec['where'] == 'route':
            app = Application([Route('/x', ep, render_error=fn)])
        elif spec['where'] == 'tuple4':
            app = Application([('/x', ep, None, fn)])
        elif spec['where'] == 'add-tuple4':
            app = Application([('/y', ep)])
            app.add(('/x', ep, None, fn))
        elif spec['where'] == 'route-kw-late':
            app = Application([('/y', ep)])
            app.add(Route('/x', ep, render_error=fn))
        elif spec['where'] == 'handler':
            app = Application([('/x', ep)], error_handler=EH())
        else:
            app = Application([('/x', ep)])
            app.set_error_handler(EH())
            app.add(('/y', ep))
        built = None
    except Exception as e:
        built = e
    got = 'accept' if built is None else 'reject:' + type(built).__name__
    acc.outcome('%s->%s' % (label.split(':')[0], got))
    case = {'label': label, 'spec': spec, 'kind': 'RE'}
    if must_reject:
        acc.add('nontrivial')
        if built is None:
            acc.violation('C04:accepted:%s' % label, 'a render_error function requiring `context` was accepted', case)
        elif not isinstance(built, NameError):
            acc.violation('C04:wrong-exception:%s:%s' % (label, type(built).__name__), 'a render_error function requiring '
                          '`context` is refused with %r, not with the NameError every other misplacement gets' % (built,), case)
    elif spec['role'] == 'def' and built is not None:
        pass    # a defaulted `context` is not required; clastic refuses the mention anyway, which the statement allows
    else:
        if built is not None:
            acc.violation('C04:rejected-valid:%s:%s' % (label, type(built).__name__),
                          'valid render_error function rejected with %r' % (built,), case)
        else:
            from mc import wsgi
            for path, code in (('/x', 200), ('/nope', 404)):
                res = wsgi.call(app, path)
                acc.transitions += 1
                if res.raised is not None or res.code != code:
                    acc.violation('C04:valid-config-fails:%s' % label, 'accepted configuration answered %s %r on %s'
                                  % (res.status, res.raised, path), case)


# ---- the bundled middlewares that provide names: their names conflict like anybody else's ----------------------------

BUNDLED = ['getparam', 'postdata', 'cookie', 'scriptroot']
SHAPES = ['list', 'tuple', 'dict', 'string', 'generator', 'map', 'set', 'keys']
CLASH = ['url', 'app_res', 'route_res', 'other-mw', 'none']


def bundled_items():
    out = []
    for b in BUNDLED:
        for shape in (SHAPES if b in ('getparam', 'postdata') else (['-', 'named', 'positional'] if b == 'cookie' else ['-'])):
            for clash in CLASH:
                for level in ('app', 'route'):
                    out.append(('bundled-%s-%s:%s' % (b, shape, clash), {'mw': b, 'shape': shape, 'clash': clash, 'level': level}, 'BM'))
    return out


def check_bundled(acc, label, spec):
    from clastic import Application, Route, Middleware
    from clastic.middleware.url import GetParamMiddleware, ScriptRootMiddleware
    from clastic.middleware.form import PostDataMiddleware
    from clastic.middleware.cookie import SignedCookieMiddleware
    from werkzeug.wrappers import Response
    from mc import wsgi
    acc.evaluated += 1
    acc.transitions += 1
    acc.validated += 1
    name = 'zq'
    shape = spec['shape']

    def params():
        if shape == 'list':
            return [name]
        if shape == 'tuple':
            return (name,)
        if shape == 'dict':
            return {name: str}
        if shape == 'string':
            return name
        if shape == 'generator':
            return (n for n in [name])
        if shape == 'map':
            return map(str, [name])
        if shape == 'set':
            return set([name])
        return {name: 1}.keys()
    try:
        if spec['mw'] == 'getparam':
            mw = GetParamMiddleware(params())
        elif spec['mw'] == 'postdata':
            mw = PostDataMiddleware(params())
        elif spec['mw'] == 'cookie':
            if shape == 'named':
                mw = SignedCookieMiddleware(secret_key=b'k', arg_name=name, cookie_name='sid')
            elif shape == 'positional':
                mw = SignedCookieMiddleware(name, 'sid', b'k')
            else:
                mw = SignedCookieMiddleware(secret_key=b'k', arg_name=name)
        else:
            mw = ScriptRootMiddleware(name)
    except Exception as e:
        acc.violation('C04:bundled-constructor:%s' % label, 'cannot construct the middleware: %r' % (e,), {'label': label, 'spec': spec, 'kind': 'BM'})
        return

    class Other(Middleware):
        provides = (name,)

        def request(self, next):
            return next(**{name: 'other'})
    clash = spec['clash']
    pattern = '/r/<%s>' % name if clash == 'url' else '/r'
    path = '/r/v' if clash == 'url' else '/r'

    def ep(zq=None):
        return Response('ok')
    kw_app, kw_rt = {}, {}
    if clash == 'app_res':
        kw_app['resources'] = {name: 1}
    if clash == 'route_res':
        kw_rt['resources'] = {name: 1}
    app_mws = [mw] if spec['level'] == 'app' else []
    rt_mws = [mw] if spec['level'] == 'route' else []
    if clash == 'other-mw':
        rt_mws = rt_mws + [Other()]
    try:
        app = Application([Route(pattern, ep, middlewares=rt_mws, **kw_rt)], middlewares=app_mws, **kw_app)
        built = None
    except Exception as e:
        built = e
    got = 'accept' if built is None else 'reject:' + type(built).__name__
    acc.outcome('bundled->%s' % got)
    case = {'label': label, 'spec': spec, 'kind': 'BM'}
    if clash != 'none':
        acc.add('nontrivial')
        if built is None:
            acc.violation('C04:accepted:%s' % label, 'the name %r is offered by the bundled middleware and by %s, construction accepted it'
                          % (name, clash), case)
        elif not isinstance(built, NameError):
            acc.violation('C04:wrong-exception:%s:%s' % (label, type(built).__name__), 'rejected with %r, expected NameError' % (built,), case)
    else:
        if built is not None:
            acc.violation('C04:rejected-valid:%s:%s' % (label, type(built).__name__), 'valid configuration rejected with %r' % (built,), case)
        else:
            res = wsgi.call(app, path)
            acc.transitions += 1
            if res.raised is not None or res.code != 200:
                acc.violation('C04:valid-config-fails:%s' % label, 'accepted configuration answered %s %r' % (res.status, res.raised), case)


def work(tier):
    items = []
    for bi, base in enumerate(bases(tier)):
        items.append(('base', base, None))
        for label, c in injections(base):
            items.append((label, c, None))
            items.append((label, c, base))
        for label, c in misplacements(base):
            items.append((label, c, None))
            items.append((label, c, base))
    items.extend(render_error_items())
    items.extend(bundled_items())
    return items


def nshards(tier):
    return 16


def shard(tier, i, n, seed):
    common.setup_repo()
    acc = common.Acc()
    h = chain.Harness()
    constructs = ('list', 'add', 'bind')
    for k, (label, cfg, base) in enumerate(work(tier)):
        if k % n != i:
            continue
        if deadline_passed():
            acc.extra['cap_hit'] = 1
            return acc
        if base == 'RE':
            check_render_error(acc, label, cfg)
            continue
        if base == 'BM':
            check_bundled(acc, label, cfg)
            continue
        for construct in (constructs or (('list', 'add', 'bind')[k % 3],)):
            check(acc, h, label, cfg, construct, base)
        if k % 997 == i:
            acc.sample({'label': label, 'cfg': cfg})
    return acc


def finish(tier, merged, results):
    oc = merged['outcomes']
    if not merged['violations']:
        if not any(k.startswith('pair') and 'reject:NameError' in k for k in oc):
            raise common.InternalError('vacuous: no conflicting pair rejected')
        if not any(k.startswith('base->accept') for k in oc):
            raise common.InternalError('vacuous: base configurations not accepted')
    mult = 3
    nre = len(render_error_items()) + len(bundled_items())
    return {'space_size': (len(work(tier)) - nre) * mult + nre,
            'bounds': {'bases': len(bases(tier)), 'names': list(NAMES), 'constructions_per_item': mult},
            'distinct_nontrivial': merged['extra'].get('nontrivial', 0)}


def replay(case):
    common.setup_repo()
    acc = common.Acc()
    h = chain.Harness()
    if case.get('kind') == 'BM':
        check_bundled(acc, case['label'], case['spec'])
    elif case.get('kind') == 'RE':
        check_render_error(acc, case['label'], case['spec'])
    else:
        check(acc, h, case['label'], case['cfg'], case.get('construct', 'list'), case.get('base'))
    if acc.violations:
        return False, acc.violations[0]['desc']
    return True, 'ok'
