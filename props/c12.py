# -*- coding: utf-8 -*-
"""C12 - concurrent requests on one Application do not interfere.

E3 exploration (mc/sched.py): every unordered pair of request kinds on two
real threads under all schedules with <= 1 preemption (quick) / <= 2
(thorough) at bytecode-instruction granularity inside clastic, the generated
chain code and the harness' own middleware/endpoint bodies; triples with <= 1
preemption; four threads with 0 preemptions (all completion orders).  Every
thread's response must equal the response the same request gets when served
alone, and the request identifiers assigned in one execution must be
pairwise distinct.
"""
import gc
import itertools
import os
import time

from mc import common, wsgi, sched

ID = 'C12'
LEVEL = 'model_checking'
BUDGET = {'quick': 900, 'thorough': 3300}
HASHSEEDS = [0]
RULE = ('thread programs = one request each from 8 kinds (each request carries a unique token in path, query and '
        'header); for every pair / triple / quadruple all schedules within the preemption bound are executed on real '
        'threads; one evaluation = one complete execution (schedule); non-trivial = the sequential responses of the '
        'threads differ (so interference is observable); distinct = distinct schedules')
ASSUMPTIONS = ['scheduling points: every non-thread-local bytecode instruction of code defined under clastic/, of '
               '<sinter generated> code and of the harness bodies; werkzeug/stdlib code runs atomically between points',
               'PYTHONHASHSEED=0 in the workers; gc disabled during executions',
               'sampling parts of the quantifier (random multi-preemption schedules, free-running stress) are replaced '
               'by the complete <=2-preemption exploration; a short free-running pass is reported as a diagnostic only']

KINDS = ['hit', 'ctx', '404', '405', 'fall', 'exc', 'redir', 'hit2', 'app2', 'q405', 'qpost']
# further kinds, explored in the pairs listed in EXTRA_PAIRS: star = a route whose `*` binding is left empty and
# whose endpoint appends to the list it was given; e404h / e405j = error responses negotiated for different Accept
# headers.  For these pairs every execution is preceded by one sequential request of the first thread's kind.
EXTRA_KINDS = ['star', 'e404h', 'e405j', 'cklogin', 'cklogout', 'tabget', 'tabpost', 'jsonpa', 'jsonpb', 'jsonp0',
               'gza', 'gzb', 'sta', 'stb', 'devhit', 'dev404']
# devhit / dev404: like hit / 404, the environ built by one (threaded) server object of clastic's development server
# gza / gzb: two compressible bodies through one GzipMiddleware instance (compared after decompression)
# sta / stb: two files, both in the second directory of one StaticApplication's search path
# jsonpa / jsonpb / jsonp0: one route rendered by one JSONPRender, asked for with callback A, callback B, none
# tabget / tabpost: a GET and a POST route on one path, different endpoints, both rendered as an HTML table by one
# BasicRender instance (the page is headed by the endpoint's name and docstring)
# cklogin / cklogout: a route behind SignedCookieMiddleware (session expiry, fixed clock) - one client stores its
# token, the other logs out (gives its cookie an expiry)
EXTRA_PAIRS = [('star', 'star'), ('star', 'hit'), ('star', '404'), ('e404h', 'e405j'), ('e405j', 'e404h'),
               ('e404h', 'e404h'), ('e404h', '404'), ('e405j', 'exc'), ('e405j', 'q405'),
               ('cklogout', 'cklogin'), ('cklogin', 'cklogout'), ('cklogin', 'cklogin'),
               ('tabget', 'tabpost'), ('tabpost', 'tabget'), ('jsonpa', 'jsonpb'), ('jsonpa', 'jsonp0'), ('jsonp0', 'jsonpb'),
               ('gza', 'gzb'), ('gza', 'gza'), ('sta', 'stb'), ('devhit', 'devhit'), ('devhit', 'dev404')]
# app2: served by a second Application; q405/qpost: a path with a GET-only and a POST-only route


def deadline_passed():
    d = os.environ.get('VERIF_DEADLINE')
    return bool(d) and time.time() > float(d)


_STATIC = []


def static_dirs():
    if not _STATIC:
        import atexit, shutil, tempfile
        root = tempfile.mkdtemp(prefix='c12-static-')
        atexit.register(shutil.rmtree, root, True)
        for d in ('d0', 'd1'):
            os.mkdir(os.path.join(root, d))
            _STATIC.append(os.path.join(root, d))
        for f in ('fa.txt', 'fb.txt'):
            with open(os.path.join(root, 'd1', f), 'w') as fh:
                fh.write('content of ' + f)
    return _STATIC


class World(object):
    def __init__(self, debug=False):
        from clastic import Application, Middleware, GET, POST, Route
        from clastic.errors import NotFound
        from werkzeug.wrappers import Response
        self.ids = []
        self.all_ids = set()
        self.guids = []
        self.all_guids = set()
        ids = self.ids
        guids = self.guids

        class Stamp(Middleware):
            provides = ('val', 'ds_seen')

            def request(self, next, request, _dispatch_state):
                tok = request.args.get('v')
                resp = next(val=tok, ds_seen=_dispatch_state)
                resp.headers['X-Stamp'] = '%s/%s' % (tok, request.headers.get('X-Tok'))
                return resp

        class PerReq(Middleware):
            provides = ('obj',)

            def request(self, next, request):
                return next(obj={'tok': request.headers.get('X-Tok'), 'path': request.path})

            def endpoint(self, next, obj, val):
                resp = next()
                if hasattr(resp, 'headers'):
                    resp.headers['X-Ep'] = '%s/%s' % (obj['tok'], val)
                return resp

        def ep(val, x, request, _dispatch_state, ds_seen, obj, _route):
            return Response('|'.join([str(val), str(x), str(request.args.get('v')), str(request.headers.get('X-Tok')),
                                      str(_dispatch_state is ds_seen), str(obj['tok']), obj['path'], _route.pattern,
                                      str(request.path_params)]))

        def ep_ctx(val, x, request, obj):
            return {'val': val, 'x': x, 'q': request.args.get('v'), 'obj': obj['tok']}

        def render(context, request, val, _dispatch_state, ds_seen):
            return Response('R|%s|%s|%s|%s' % (sorted(context.items()), request.args.get('v'), val, _dispatch_state is ds_seen))

        def nb(val):
            raise NotFound('nb %s' % val, is_breaking=False)

        def second(val, request):
            return Response('second|%s|%s' % (val, request.headers.get('X-Tok')))

        def boom(val):
            raise ValueError('boom %s' % val)

        def second_q(val, x, request):
            return Response('posted|%s|%s|%s' % (val, x, request.headers.get('X-Tok')))
        from clastic.middleware.cookie import SignedCookieMiddleware
        import clastic.middleware.cookie as cm
        import secure_cookie.cookie as sc

        class FixedClock(object):
            # the cookie code's clock is a seam: Expires / signatures must not depend on wall time
            def time(self):
                return 1700000000.0
        cm.time = sc.time = FixedClock()

        def ep_ck(cookie, request, val):
            if request.args.get('op') == 'logout':
                cookie['user'] = val
                cookie.set_expires()
            else:
                cookie['user'] = val
            return Response('ck|%s|%s' % (val, sorted(cookie.items())))

        from clastic.render import BasicRender
        tab_render = BasicRender()

        def ep_tab_get(val):
            """Show the thing (GET)."""
            return {'method': 'get', 'val': val}

        def ep_tab_post(val):
            """Change the thing (POST)."""
            return {'method': 'post', 'val': val}

        from clastic.render import JSONPRender
        jsonp_render = JSONPRender(dev_mode=True)

        def ep_jsonp(val, request):
            return {'who': val, 'tok': request.headers.get('X-Tok'), 'pad': list(range(8))}

        from clastic.middleware import GzipMiddleware
        from clastic.static import StaticApplication

        def ep_gz(x, val):
            return Response(('%s|%s|' % (x, val)) * 150, mimetype='text/plain')

        def docs(rest, val):
            rest.append('index.%s' % val)
            return Response('docs|' + '/'.join(rest))
        self.harness_funcs = [ep_gz, ep_ck, ep_tab_get, ep_tab_post, ep_jsonp, docs, Stamp.request, PerReq.request, PerReq.endpoint, ep, ep_ctx, render, nb, second, boom, second_q]
        from werkzeug.wrappers import Request

        class RecordingRequest(Request):
            def __setattr__(self, name, value):
                if name == 'request_id':
                    ids.append(value)
                elif name == 'request_guid':
                    guids.append(value)
                Request.__setattr__(self, name, value)

        class App(Application):
            request_type = RecordingRequest
        self.app = App([GET('/a/<x>', ep), ('/b/<x>/', ep), ('/c/<x>', ep_ctx, render), ('/n', nb), ('/n', second),
                                ('/boom', boom), POST('/p', lambda: Response('p')), ('/d/<x:int>', ep),
                                GET('/q/<x>', ep), POST('/q/<x>', second_q), ('/docs/<rest*>', docs), ('/jsonp', ep_jsonp, jsonp_render), GET('/tab', ep_tab_get, tab_render), POST('/tab', ep_tab_post, tab_render),
                                Route('/ck', ep_ck, middlewares=[SignedCookieMiddleware(secret_key=b'c12-fixed-key')]),
                                Route('/gz/<x>', ep_gz, middlewares=[GzipMiddleware()]),
                                ('/static', StaticApplication(list(static_dirs())))],
                               middlewares=[Stamp(), PerReq()], debug=debug)

        self.app2 = App([GET('/z/<x>', ep)], middlewares=[Stamp(), PerReq()], debug=debug)

    def request_for(self, kind, tok):
        q = 'v=' + tok
        h = {'X-Tok': tok, 'Host': tok + '.example'}       # every request names its own host
        if kind in ('devhit', 'dev404'):
            return ({'devhit': '/a/', 'dev404': '/zz/'}[kind] + tok, 'GET', q, h)
        if kind == 'star':
            return ('/docs', 'GET', q, h)
        if kind in ('gza', 'gzb'):
            return ('/gz/' + tok + kind[-1], 'GET', q, dict(h, **{'Accept-Encoding': 'gzip'}))
        if kind in ('sta', 'stb'):
            return ('/static/f%s.txt' % kind[-1], 'GET', q, h)
        if kind in ('jsonpa', 'jsonpb', 'jsonp0'):
            return ('/jsonp', 'GET', q + {'jsonpa': '&callback=cbA', 'jsonpb': '&callback=cbB', 'jsonp0': ''}[kind], h)
        if kind == 'tabget':
            return ('/tab', 'GET', q, dict(h, Accept='text/html'))
        if kind == 'tabpost':
            return ('/tab', 'POST', q, dict(h, Accept='text/html'))
        if kind == 'cklogin':
            return ('/ck', 'GET', q + '&op=login', h)
        if kind == 'cklogout':
            return ('/ck', 'GET', q + '&op=logout', h)
        if kind == 'exch':
            return ('/boom', 'GET', q, dict(h, Accept='text/html'))
        if kind == 'e404h':
            return ('/zz/' + tok, 'GET', q, dict(h, Accept='text/html'))
        if kind == 'e405j':
            return ('/p', 'GET', q, dict(h, Accept='application/json'))
        return {'hit': ('/a/' + tok, 'GET'), 'ctx': ('/c/' + tok, 'GET'), '404': ('/zz/' + tok, 'GET'), '405': ('/p', 'GET'),
                'fall': ('/n', 'GET'), 'exc': ('/boom', 'GET'), 'redir': ('/b/' + tok, 'GET'),
                'hit2': ('/d/' + str(len(tok) * 7 + ord(tok[-1])), 'GET'), 'app2': ('/z/' + tok, 'GET'),
                'q405': ('/q/' + tok, 'PUT'), 'qpost': ('/q/' + tok, 'POST')}[kind] + (q, h)

    def serve(self, kind, tok):
        path, method, q, h = self.request_for(kind, tok)
        if kind.startswith('dev'):
            if getattr(self, '_dev', None) is None:
                self._dev = wsgi.DevServer(self.app, threaded=True)
            res = wsgi.call(self.app, None, environ=self._dev.environ(path, method, q, headers=h))
        else:
            res = wsgi.call(self.app2 if kind == 'app2' else self.app, path, method, query=q, headers=h)
        if res.headers and res.header('Content-Encoding') == 'gzip':
            import gzip as _gz
            try:
                res.body = b'gzip:' + _gz.decompress(res.body)      # the stream itself carries a timestamp
            except Exception as e:
                res.body = b'corrupt gzip stream: ' + repr(e).encode() + res.body[:20]
        return (res.status, res.body, res.header('Location'), res.header('X-Stamp'), res.header('X-Ep'),
                res.header('Allow'), repr(res.raised) if res.raised else None, res.header('Content-Type'),
                tuple(res.header_all('Set-Cookie')) if res.headers else None)


def setup_world():
    # a process that has been up for a while: the process-wide request counter crosses 2**32 during the first work items
    import itertools as _it
    import clastic.application as _ca
    _ca._REQ_ID_ITER = _it.count(2 ** 32 - 400)
    w = World()
    repo = common.REPO + '/clastic/'
    here = os.path.abspath(__file__).replace('.pyc', '.py')

    def pred(fn):
        return fn.startswith(repo) or fn.startswith('<sinter generated') or fn == here
    # warm up every request kind (lazy imports, cached properties) before collecting code objects
    for k in KINDS + EXTRA_KINDS:
        for t in ('w1', 'w2'):
            w.serve(k, t)
    codes = sched.collect_codes(pred)
    sched.instrument(codes)
    return w, len(codes)


def combos(tier):
    """(thread kinds tuple, bound)"""
    out = []
    for pair in itertools.combinations_with_replacement(KINDS, 2):
        out.append((pair, 1))
    for pair in EXTRA_PAIRS:
        out.append((pair, 1))
    triples = [('hit', 'ctx', '404'), ('hit', 'hit', 'redir'), ('fall', 'exc', '405'), ('hit', 'hit2', 'fall'),
               ('redir', 'ctx', 'exc')]
    for t in triples:
        out.append((t, 1))
    out.append((('hit', 'ctx', 'exc', 'redir'), 0))
    out.append((('hit', 'hit', '404', 'fall'), 0))
    if tier == 'thorough':
        for pair in B2_PAIRS:
            out.append((pair, 2))
    return out


# pairs explored under every schedule with <= 2 preemptions in the thorough tier (about n*n/2 executions each)
B2_PAIRS = [('hit', 'hit'), ('hit', 'ctx'), ('hit', '404'), ('fall', 'exc'), ('redir', '405'), ('q405', 'qpost')]


B2_SPLIT = 64     # bound-2 exploration of one pair is split over this many work items (by first preemption point)


def work_items(tier):
    items = []
    for kinds, bound in combos(tier):
        if bound == 2:
            for part in range(B2_SPLIT):
                items.append((kinds, bound, part))
        elif len(kinds) == 3:
            for part in range(4):
                items.append((kinds, bound, part))
        else:
            items.append((kinds, bound, None))
    return items


def history_for(w, kinds):
    if not any(k in EXTRA_KINDS for k in kinds):
        return None

    def before():
        w.serve(kinds[0], 'h0q')
        w.all_ids.update(i for i in w.ids if i is not None)
        del w.ids[:]
        w.all_guids.update(w.guids)
        del w.guids[:]
    return before


def explore_combo(acc, w, kinds, bound, part):
    toks = ['t%dq' % (i + 1) + 'xyz'[i % 3] for i in range(len(kinds))]
    # what each request gets when served alone: by a *fresh* application, so that damage an earlier request
    # did to the shared one cannot hide in the baseline
    seq = []
    for k, t in zip(kinds, toks):
        seq.append(World().serve(k, t))
    nontrivial = len(set(seq)) > 1
    bodies = [(lambda k=k, t=t: w.serve(k, t)) for k, t in zip(kinds, toks)]
    label = '+'.join(kinds)
    state = {'viol': 0}

    def on_exec(run, results):
        acc.evaluated += 1
        acc.transitions += run.npoints
        acc.validated += len(results)
        if nontrivial:
            acc.add('nontrivial')
        ids = list(w.ids)
        del w.ids[:]
        for i, (r, s) in enumerate(zip(results, seq)):
            if r is None or r[0] != 'ok' or r[1] != s:
                state['viol'] += 1
                sched_desc = [c for c in run.choices]
                first = next((j for j, c in enumerate(run.choices) if c), None)
                where = run.pids[first] if first is not None else None
                acc.violation('C12:interference:%s:%s' % (kinds[i], 'status' if (r and r[0] == 'ok' and r[1][0] != s[0]) else 'content'),
                              'threads %r: thread %d (%s) got %r, alone it gets %r; first deviation at %r'
                              % (kinds, i, kinds[i], r, s, where),
                              {'kinds': list(kinds), 'bound': bound, 'choices': sched_desc})
                break
        if len(ids) == len(kinds) and None not in ids and len(set(ids)) != len(ids):
            acc.violation('C12:request-id-collision', 'threads %r were assigned request ids %r' % (kinds, ids),
                          {'kinds': list(kinds), 'bound': bound, 'choices': list(run.choices)})
        # ... and unique within the process: never an id that any earlier request of this worker was given
        for rid in ids:
            if rid in w.all_ids:
                acc.violation('C12:request-id-reused', 'request id %r was assigned before in this process (threads %r)' % (rid, kinds),
                              {'kinds': list(kinds), 'bound': bound, 'choices': list(run.choices)})
                break
        w.all_ids.update(i for i in ids if i is not None)
        gs = list(w.guids)
        del w.guids[:]
        for g in gs:
            if g in w.all_guids:
                acc.violation('C12:request-guid-reused', 'request guid %r was assigned twice in this process (threads %r)' % (g, kinds),
                              {'kinds': list(kinds), 'bound': bound, 'choices': list(run.choices)})
                break
            w.all_guids.add(g)
    first_choices = None
    if part is not None:
        split = B2_SPLIT if bound == 2 else 4
        first_choices = lambda i: i % split == part
    w.all_ids.update(i for i in w.ids if i is not None)
    del w.ids[:]
    w.all_guids.update(w.guids)
    del w.guids[:]
    gc.disable()
    try:
        st = sched.explore(bodies, bound, on_exec, first_choices=first_choices, should_stop=deadline_passed,
                           before=history_for(w, kinds))
    finally:
        gc.enable()
    acc.outcome('%s|bound%d' % (label if len(kinds) > 2 else 'pair', bound), st['executions'])
    if st['capped']:
        acc.extra['cap_hit'] = 1
        acc.extra.setdefault('capped_items', []).append('%s bound %d part %s' % (label, bound, part))
    else:
        acc.extra.setdefault('completed_items', []).append('%s bound %d part %s' % (label, bound, part))
    acc.add('schedules', st['executions'])
    return st


# pairs explored on a *cold* application: every execution starts from a freshly constructed World, so whatever the
# framework sets up lazily on the first request of a route is inside the explored window
COLD_PAIRS = [('hit', 'hit'), ('hit', '404'), ('ctx', 'exc'), ('e404h', 'e404h'), ('star', 'star'), ('sta', 'stb')]


def generated_codes(app):
    out = set()
    seen = set()

    def walk(fn):
        code = getattr(fn, '__code__', None)
        if code is None or id(fn) in seen or not code.co_filename.startswith('<sinter generated'):
            return
        seen.add(id(fn))
        sched.walk_code(code, out)
        for v in list(fn.__globals__.values()):
            for f in (v if isinstance(v, (list, tuple)) else (v,)):
                walk(f)
    for rt in list(app.routes) + [app._null_route]:
        walk(getattr(rt, '_execute', None))
        walk(getattr(rt, '_render_error', None))
    return out


def explore_cold(acc, kinds, bound):
    toks = ['t%dq' % (i + 1) + 'xyz'[i % 3] for i in range(len(kinds))]
    seq = [World().serve(k, t) for k, t in zip(kinds, toks)]
    cur = {}

    def before():
        w = World()
        sched.instrument(generated_codes(w.app) | generated_codes(w.app2))
        cur['w'] = w
    bodies = [(lambda k=k, t=t: cur['w'].serve(k, t)) for k, t in zip(kinds, toks)]

    def on_exec(run, results):
        acc.evaluated += 1
        acc.transitions += run.npoints
        acc.validated += len(results)
        acc.add('nontrivial')
        for i, (r, s) in enumerate(zip(results, seq)):
            if r is None or r[0] != 'ok' or r[1] != s:
                first = next((j for j, c in enumerate(run.choices) if c), None)
                acc.violation('C12:interference:cold:%s:%s' % (kinds[i], 'status' if (r and r[0] == 'ok' and r[1][0] != s[0]) else 'content'),
                              'freshly constructed application, threads %r: thread %d (%s) got %r, alone it gets %r; first deviation at %r'
                              % (kinds, i, kinds[i], r, s, run.pids[first] if first is not None else None),
                              {'kinds': list(kinds), 'bound': bound, 'choices': list(run.choices), 'cold': True})
                break
    gc.disable()
    try:
        st = sched.explore(bodies, bound, on_exec, should_stop=deadline_passed, before=before)
    finally:
        gc.enable()
    acc.outcome('cold-pair|bound%d' % bound, st['executions'])
    label = 'cold:' + '+'.join(kinds)
    if st['capped']:
        acc.extra['cap_hit'] = 1
        acc.extra.setdefault('capped_items', []).append('%s bound %d' % (label, bound))
    else:
        acc.extra.setdefault('completed_items', []).append('%s bound %d' % (label, bound))
    acc.add('schedules', st['executions'])
    return st


# ---- cold *process* executions -----------------------------------------------------------------------------------------
# Every execution runs in a freshly started interpreter (debug application, no warm-up): what clastic sets up once per
# process on first use (lazily registered templates, module-level caches) is inside the explored window.  The parent
# drives the same depth-first enumeration as mc/sched.explore; the child replays one choice prefix and reports back.
COLD_PROCESS_PAIRS = [('exch', 'e404h'), ('e404h', 'exch')]
CP_SPLIT = 16


def child_main():
    import json
    import sys
    spec = json.load(sys.stdin)
    common.setup_repo()
    w = World(debug=True)
    repo = common.REPO + '/clastic/'
    here = os.path.abspath(__file__).replace('.pyc', '.py')

    def pred(fn):
        return fn.startswith(repo) or fn.startswith('<sinter generated') or fn == here
    sched.instrument(sched.collect_codes(pred))
    kinds = spec['kinds']
    toks = spec.get('toks') or ['t%dq' % (i + 1) + 'xyz'[i % 3] for i in range(len(kinds))]
    bodies = [(lambda k=k, t=t: w.serve(k, t)) for k, t in zip(kinds, toks)]
    rec = spec.get('recorded')
    if rec is not None:
        rec = [tuple(x) if isinstance(x, list) else x for x in rec]
    gc.disable()
    run, results = sched.run_once(bodies, spec['prefix'], rec, bound=spec['bound'], timeout=60.0)
    import re

    def norm(r):
        # the debug pages print the wall-clock time, object addresses and the thread: not the request's business
        t = repr(r)
        t = re.sub(r'\d{4}-\d\d-\d\d \d\d:\d\d:\d\d(\.\d+)?', 'TIMESTAMP', t)
        t = re.sub(r'0x[0-9a-fA-F]{6,}', '0xADDR', t)
        t = re.sub(r'Thread-\d+ \([a-z_]+\)|Thread-\d+', 'THREAD', t)
        return t
    json.dump({'choices': run.choices, 'widths': run.widths, 'kinds': run.kinds, 'pids': run.pids, 'npoints': run.npoints,
               'results': [norm(r) for r in results]}, sys.stdout)


def run_child(kinds, prefix, recorded, bound, toks=None):
    import json
    import subprocess
    import sys
    verif = os.path.dirname(os.path.dirname(os.path.abspath(__file__)))
    code = 'import sys; sys.path.insert(0, %r); from props import c12; c12.child_main()' % verif
    p = subprocess.run([sys.executable, '-c', code], input=json.dumps({'kinds': list(kinds), 'prefix': prefix, 'recorded': recorded,
                                                                       'bound': bound, 'toks': toks}).encode('utf-8'),
                       stdout=subprocess.PIPE, stderr=subprocess.PIPE, env=dict(os.environ, PYTHONHASHSEED='0'), timeout=180)
    if p.returncode != 0:
        raise common.InternalError('cold-process child failed: %s' % p.stderr.decode('utf-8', 'replace')[-800:])
    return json.loads(p.stdout.decode('utf-8'))


def explore_cold_process(acc, kinds, bound, part):
    toks = ['t%dq' % (i + 1) + 'xyz'[i % 3] for i in range(len(kinds))]
    seq = [run_child([k], [], None, 0, [t])['results'][0] for k, t in zip(kinds, toks)]
    stack = [([], None, 0)]
    execs = 0
    capped = False
    while stack:
        prefix, recorded, used = stack.pop()
        out = run_child(kinds, prefix, recorded, bound)
        execs += 1
        acc.evaluated += 1
        acc.transitions += out['npoints']
        acc.validated += len(kinds)
        acc.add('nontrivial')
        for i, (r, sres) in enumerate(zip(out['results'], seq)):
            if r != sres:
                first = next((j for j, c in enumerate(out['choices']) if c), None)
                acc.violation('C12:interference:cold-process:%s' % kinds[i],
                              'freshly started process, threads %r: thread %d (%s) got %s, alone it gets %s; first deviation at %r'
                              % (kinds, i, kinds[i], r[:300], sres[:300], out['pids'][first] if first is not None else None),
                              {'kinds': list(kinds), 'bound': bound, 'choices': out['choices'], 'cold_process': True})
                break
        if execs % 16 == 0 and deadline_passed():
            capped = True
            break
        for i in range(len(prefix), len(out['choices'])):
            wd = out['widths'][i]
            if wd < 2:
                continue
            cost = 1 if out['kinds'][i] == 'p' else 0
            if used + cost > bound:
                continue
            if used == 0 and cost == 1 and i % CP_SPLIT != part:
                continue
            if used == 0 and cost == 0 and part != 0:
                continue          # free choices (who starts, who goes on after an exit) are explored by part 0 only
            for alt in range(1, wd):
                stack.append((out['choices'][:i] + [alt], out['pids'][:i + 1], used + cost))
    label = 'cold-process:%s part %d' % ('+'.join(kinds), part)
    acc.outcome('cold-process-pair|bound%d' % bound, execs)
    if capped:
        acc.extra['cap_hit'] = 1
        acc.extra.setdefault('capped_items', []).append(label)
    else:
        acc.extra.setdefault('completed_items', []).append(label)
    acc.add('schedules', execs)
    return execs


def nshards(tier):
    return 32 if tier == 'quick' else 64


def shard(tier, i, n, seed):
    common.setup_repo()
    acc = common.Acc()
    try:
        w, ncodes = setup_world()
    except Exception as e:
        raise
    acc.extra['instrumented_code_objects'] = [ncodes]
    items = sorted(work_items(tier), key=lambda it: (-len(it[0]), -it[1], it[0], it[2] or 0))
    for k, (kinds, bound, part) in enumerate(items):
        if k % n != i:
            continue
        if deadline_passed():
            acc.extra['cap_hit'] = 1
            acc.extra.setdefault('skipped_items', []).append('%s bound %d part %s' % ('+'.join(kinds), bound, part))
            continue
        try:
            st = explore_combo(acc, w, kinds, bound, part)
        except (sched.Divergence, sched.Hang) as e:
            raise common.InternalError('scheduler: %s (threads %r bound %d)' % (e, kinds, bound))
        acc.sample({'threads': list(kinds), 'bound': bound, 'part': part, 'schedules': st['executions'],
                    'scheduling_points_max': st['points_max']})
    cp_pairs = COLD_PROCESS_PAIRS[:1] if tier == 'quick' else COLD_PROCESS_PAIRS
    cp_items = [(kinds, part) for kinds in cp_pairs for part in range(CP_SPLIT)]
    for k, (kinds, part) in enumerate(cp_items):
        if (k + 11) % n != i:
            continue
        if deadline_passed():
            acc.extra['cap_hit'] = 1
            acc.extra.setdefault('skipped_items', []).append('cold-process:%s part %d' % ('+'.join(kinds), part))
            continue
        ne = explore_cold_process(acc, kinds, 1, part)
        acc.sample({'threads': list(kinds), 'bound': 1, 'cold_process': True, 'part': part, 'schedules': ne})
    for k, kinds in enumerate(COLD_PAIRS):
        if (k + 5) % n != i:
            continue
        if deadline_passed():
            acc.extra['cap_hit'] = 1
            acc.extra.setdefault('skipped_items', []).append('cold:%s' % '+'.join(kinds))
            continue
        try:
            st = explore_cold(acc, kinds, 1)
        except (sched.Divergence, sched.Hang) as e:
            raise common.InternalError('scheduler: %s (cold threads %r)' % (e, kinds))
        acc.sample({'threads': list(kinds), 'bound': 1, 'cold': True, 'schedules': st['executions'],
                    'scheduling_points_max': st['points_max']})
    # supplementary, non-deciding: free-running threads with a minimal switch interval (sampling, reported only)
    if i == 1 % n:
        import sys
        import threading
        old_si = sys.getswitchinterval()
        sys.setswitchinterval(1e-6)
        mism = []
        try:
            def runner(tid):
                for r in range(150):
                    kind = KINDS[(tid + r) % len(KINDS)]
                    tok = 'f%dr%dq' % (tid, r)
                    want = w.serve(kind, tok) if False else None
                    got = w.serve(kind, tok)
                    res_[tid].append((kind, tok, got))
            res_ = [[] for _ in range(8)]
            ths = [threading.Thread(target=runner, args=(t,)) for t in range(8)]
            for t in ths:
                t.start()
            for t in ths:
                t.join()
        finally:
            sys.setswitchinterval(old_si)
        for tid in range(8):
            for kind, tok, got in res_[tid]:
                if got != w.serve(kind, tok):
                    mism.append([kind, tok])
        acc.extra['free_running_requests'] = [sum(len(r) for r in res_)]
        acc.extra['free_running_mismatches'] = [len(mism)]
        del w.ids[:]
    # determinism: one recorded schedule replayed twice must give identical observations
    if i == 0:
        kinds = ('hit', 'exc')
        toks = ['t1qx', 't2qy']
        bodies = [(lambda k=k, t=t: w.serve(k, t)) for k, t in zip(kinds, toks)]
        run0, res0 = sched.run_once(bodies, [0] * 40 + [1])
        run1, res1 = sched.run_once(bodies, run0.choices, run0.pids)
        if res0 != res1 or run0.pids != run1.pids:
            raise common.InternalError('replaying one schedule twice gave different observations')
    return acc


def finish(tier, merged, results):
    if not merged['violations'] and merged['extra'].get('nontrivial', 0) < 100:
        raise common.InternalError('vacuous: too few non-trivial schedules')
    return {'bounds': {'request_kinds': KINDS, 'pairs': 'all %d unordered pairs' % (len(KINDS) * (len(KINDS) + 1) // 2),
                       'cold_application_pairs': ['+'.join(p) for p in COLD_PAIRS],
                       'cold_process_pairs': ['+'.join(p) for p in (COLD_PROCESS_PAIRS[:1] if tier == 'quick' else COLD_PROCESS_PAIRS)],
                       'extra_kinds': EXTRA_KINDS, 'extra_pairs_with_history': ['+'.join(p) for p in EXTRA_PAIRS],
                       'pair_preemption_bound': 1, 'pairs_at_preemption_bound_2': [] if tier == 'quick' else ['+'.join(p) for p in B2_PAIRS], 'triples': 5, 'triple_preemption_bound': 1,
                       'quadruples': 2, 'quadruple_preemption_bound': 0, 'granularity': 'bytecode instruction'},
            'distinct_nontrivial': merged['extra'].get('nontrivial', 0),
            'coverage': {'schedules': merged['extra'].get('schedules', 0),
                         'work_items_completed': len(merged['extra'].get('completed_items', [])),
                         'work_items_capped_or_skipped': sorted(merged['extra'].get('capped_items', []) + merged['extra'].get('skipped_items', []))[:80],
                         'supplementary_free_running': {'requests': sum(merged['extra'].get('free_running_requests') or [0]),
                                                        'mismatches': sum(merged['extra'].get('free_running_mismatches') or [0]),
                                                        'note': 'sampling, diagnostic only, never a verdict'},
                         'instrumented_code_objects': (merged['extra'].get('instrumented_code_objects') or [0])[0],
                         'note': 'states = complete executions (schedules); transitions = scheduling points passed; '
                                 'every combination listed in bounds was explored exhaustively within its bound'}}


def replay(case):
    common.setup_repo()
    w, _ = setup_world()
    kinds = case['kinds']
    if case.get('cold_process'):
        out = run_child(kinds, case['choices'], None, case.get('bound', 1))
        toks = ['t%dq' % (i + 1) + 'xyz'[i % 3] for i in range(len(kinds))]
        seq = [run_child([k], [], None, 0, [t])['results'][0] for k, t in zip(kinds, toks)]
        for i, (r, sres) in enumerate(zip(out['results'], seq)):
            if r != sres:
                return False, 'thread %d (%s) got %s, alone %s' % (i, kinds[i], r[:300], sres[:300])
        return True, 'ok'
    if case.get('cold'):
        acc = common.Acc()
        explore_cold(acc, tuple(kinds), case.get('bound', 1))
        return (False, acc.violations[0]['desc']) if acc.violations else (True, 'ok')
    toks = ['t%dq' % (i + 1) + 'xyz'[i % 3] for i in range(len(kinds))]
    seq = [World().serve(k, t) for k, t in zip(kinds, toks)]
    bodies = [(lambda k=k, t=t: w.serve(k, t)) for k, t in zip(kinds, toks)]
    del w.ids[:]
    hist = history_for(w, kinds)
    if hist is not None:
        hist()
        del w.ids[:]
    run, results = sched.run_once(bodies, case['choices'], bound=case.get('bound', 1))
    ids = list(w.ids)
    for i, (r, s) in enumerate(zip(results, seq)):
        if r[0] != 'ok' or r[1] != s:
            return False, 'thread %d (%s) got %r, alone %r' % (i, kinds[i], r, s)
    if len(set(ids)) != len(ids):
        return False, 'request ids %r' % ids
    return True, 'ok'
