# -*- coding: utf-8 -*-
"""C19 - stats count every request once and keep bounded samples.

(a) Sample store: explicit-state breadth-first search over all sequences of
add / resize / iterate operations on the real Reservoir, with *every answer
of the random source* enumerated at each add beyond capacity (the random
module the reservoir looks up is replaced by a scripted seam), invariants
evaluated in every state.  (b) Counting: every history of requests / stats
reads / resets up to a depth bound against one real application with
StatsMiddleware, compared step by step with a model counter.
"""
import itertools
import json
import os
import time

from mc import common, wsgi

ID = 'C19'
LEVEL = 'model_checking'
BUDGET = {'quick': 300, 'thorough': 2400}
RULE = ('(a) BFS over (cap, data, total_count) states of the reservoir, successor = each operation x each answer of the '
        'random source; (b) all histories over {request to each of 9 routes, read stats, reset}; one evaluation = one '
        'state (a) or one history (b); non-trivial = reservoir beyond capacity / history containing an error outcome; '
        'distinct = distinct canonical states and histories')
ASSUMPTIONS = ['the reservoir object consists of exactly _cap, _data, _total_count (asserted in every state), so a state '
               'can be re-materialised from its canonical form',
               'the random source is only consulted through clastic.middleware.stats.random.random()',
               'stats are observed through the stats application report (keyed by pattern; distinct routes with one '
               'identical pattern are not generated, observation O9)']


def deadline_passed():
    d = os.environ.get('VERIF_DEADLINE')
    return bool(d) and time.time() > float(d)


# ---- (a) reservoir ------------------------------------------------------------------------------

class Script(object):
    """Stands in for the `random` module inside clastic.middleware.stats."""

    def __init__(self):
        self.answer = None
        self.asked = 0

    def random(self):
        self.asked += 1
        if getattr(self, 'queue', None):
            idx, n = self.queue.pop(0)
            return (idx + 0.5) / n
        if self.answer is None:
            raise common.InternalError('random source consulted without a scripted answer')
        idx, n = self.answer
        return (idx + 0.5) / n


def materialise(stats_mod, state):
    # state = (capacity last requested through the API, the object's own _cap, data, total_count)
    mcap, cap, data, total = state
    r = stats_mod.Reservoir(max(1, cap) if cap != float('inf') else False)
    r._cap = cap
    r._data = list(data)
    r._total_count = total
    return r


def observe(r):
    if sorted(vars(r)) != ['_cap', '_data', '_total_count']:
        raise common.InternalError('Reservoir has attributes %r: canonical form incomplete' % sorted(vars(r)))
    return (r._cap, tuple(r._data), r._total_count)


def reservoir_bfs(acc, tier, i, n):
    import clastic.middleware.stats as st
    script = Script()
    orig = st.random
    st.random = script
    max_ops = 7 if tier == 'quick' else 9
    caps = (1, 2, 3)
    resizes = (1, 2, 3, 4)
    try:
        # initial states come from the real constructor (the capacity it stores must be the one asked for)
        start = []
        for c in caps:
            r0 = st.Reservoir(c)
            o = observe(r0)
            start.append((c, o[0], o[1], o[2]))
        # ... and from the constructor's data= argument (more values than the capacity included), under every
        # sequence of answers of the random source (three positions per consultation)
        for c in caps:
            for k in range(1, c + 4):
                for answers in itertools.product(range(3), repeat=max(0, k - c)):
                    script.queue = [(a, 3) for a in answers]
                    script.asked = 0
                    script.answer = None
                    acc.transitions += 1
                    case = {'part': 'reservoir-constructor', 'cap': c, 'data': k, 'answers': list(answers)}
                    try:
                        r0 = st.Reservoir(c, data=range(k))
                    except common.InternalError:
                        raise
                    except Exception as e:
                        acc.violation('C19:reservoir:constructor-raised-%s' % type(e).__name__,
                                      'Reservoir(%d, data=range(%d)) raised %r' % (c, k, e), case)
                        continue
                    finally:
                        script.queue = []
                    o = observe(r0)
                    acc.validated += 1
                    if len(o[1]) > c or o[0] != c:
                        acc.violation('C19:reservoir:over-capacity:constructor', 'Reservoir(%d, data=range(%d)) holds %d values, '
                                      'capacity %r' % (c, k, len(o[1]), o[0]), case)
                        continue
                    if o[2] != k or not set(o[1]) <= set(range(k)):
                        acc.violation('C19:reservoir:total-count:constructor', 'Reservoir(%d, data=range(%d)) reports %r' % (c, k, o), case)
                        continue
                    stt = (c, o[0], o[1], o[2])
                    if stt not in start:
                        start.append(stt)
        # shard by (initial capacity, first operation)
        seen = set(start)
        frontier = list(start)
        depth = 0
        nstates = 0
        while frontier and depth < max_ops:
            nxt = []
            for si, state in enumerate(frontier):
                if depth == 1 and si % n != i:
                    continue         # from depth 1 on every shard follows its own part of the frontier
                if si % 50 == 0 and deadline_passed():
                    acc.extra['cap_hit'] = 1
                    return
                mcap, cap, data, total = state
                nadds = total
                # does this add consult the random source?  (probe once; then enumerate every answer)
                probe = materialise(st, state)
                script.asked = 0
                script.answer = (0, total + 2)
                try:
                    probe.add(nadds)
                except Exception:
                    pass
                if script.asked > 1:
                    raise common.InternalError('random source consulted %d times in one add' % script.asked)
                ops = [('add', None)] if script.asked == 0 else [('add', k) for k in range(total + 2)]
                ops += [('resize', k) for k in resizes] + [('iter', None)]
                for op, arg in ops:
                    r = materialise(st, state)
                    script.asked = 0
                    script.answer = None
                    acc.transitions += 1
                    case = {'part': 'reservoir', 'state': [mcap, cap, list(data), total], 'op': [op, arg]}
                    try:
                        if op == 'add':
                            if arg is not None:
                                script.answer = (arg, total + 2)
                            r.add(nadds)          # values are 0, 1, 2, ... in order of addition
                            want_total = total + 1
                        elif op == 'resize':
                            r.resize(arg)
                            want_total = total
                        else:
                            listed = list(r)
                            want_total = total
                            if listed != list(r._data) or r.to_list() != list(r._data):
                                acc.violation('C19:reservoir:iteration', 'iteration yields %r, data is %r' % (listed, r._data), case)
                    except common.InternalError:
                        raise
                    except Exception as e:
                        feat = 'after-resize-up' if (len(data) < mcap < total + 1) else 'plain'
                        acc.violation('C19:reservoir:raised-%s:%s:%s' % (type(e).__name__, op, feat),
                                      'Reservoir%r.%s(%r) raised %r' % (state, op, arg, e), case)
                        continue
                    new_mcap = arg if op == 'resize' else mcap
                    new = (new_mcap,) + observe(r)
                    acc.validated += 1
                    ncap, rcap, ndata, ntotal = new
                    bad = None
                    if len(ndata) > ncap:
                        bad = ('over-capacity', 'holds %d values with capacity %d' % (len(ndata), ncap))
                    elif ntotal != want_total:
                        bad = ('total-count', 'reports total_count %d after %d additions' % (ntotal, want_total))
                    elif not set(ndata) <= set(range(nadds + 1)):
                        bad = ('foreign-value', 'contains %r' % (ndata,))
                    if bad:
                        acc.violation('C19:reservoir:%s:%s' % (bad[0], op), 'Reservoir%r.%s(%r): %s -> %r' % (state, op, arg, bad[1], new), case)
                        continue
                    if new not in seen:
                        seen.add(new)
                        nxt.append(new)
                        nstates += 1
                        if ntotal > ncap:
                            acc.add('nontrivial')
                        if nstates % 5000 == 1:
                            acc.sample({'reservoir_state': [ncap, list(ndata), ntotal], 'reached_by': [op, arg], 'from': [mcap, list(data), total]})
            frontier = nxt
            depth += 1
        acc.evaluated += nstates
        acc.outcome('reservoir-states', nstates)
    finally:
        st.random = orig


# ---- (b) counting ---------------------------------------------------------------------------------

ROUTES = ['ok', 'redir', 'raise403', 'ret404', 'boom', 'nb', 'catch', 'nf', 'mna', 'reroute', 'raise422', 'inner-ok',
          'parse-ok', 'parse-bad']
# parse-ok / parse-bad: one route that answers 200 or fails with ValueError depending on the path; the failing request
# asks for a profile (?_prof=1; SimpleProfileMiddleware sits in front of StatsMiddleware)
# raise422: an HTTP error raised with an explicit code= ; inner-ok: a route of an embedded application that brought
# its own StatsMiddleware instance (merged away: the serving application's instance counts)
STEPS = ROUTES + ['read', 'reset', 'other-app', 'other-reset', 'swap-handler', 'late-add', 'read-html', 'reset-html']
# read-html / reset-html: the stats pages as a browser asks for them (Accept: text/html)
# swap-handler: the live application gets a new error handler; late-add: a route is added to the live application.
# Neither is a request: the counts must be unaffected.


class StatsWorld(object):
    def __init__(self):
        from clastic import Application, GET, POST
        from clastic.errors import Forbidden, NotFound
        from clastic.middleware.stats import StatsMiddleware, create_stats_app
        from werkzeug.wrappers import Response
        from werkzeug.utils import redirect

        def ok():
            return Response('ok')

        def redir():
            return redirect('/ok')

        def raise403():
            raise Forbidden('no')

        def ret404():
            return NotFound('nope')

        def boom():
            raise ValueError('boom')

        def nb():
            raise NotFound(is_breaking=False)

        def catch(x):
            return Response('caught %s' % x)

        def target(environ, start_response):
            start_response('200 OK', [('Content-Type', 'text/plain')])
            return [b'rerouted']

        def reroute():
            from clastic.application import RerouteWSGI
            raise RerouteWSGI(target)
        def raise422():
            from clastic.errors import BadRequest
            raise BadRequest('unprocessable', code=422)
        inner = Application([('/ok', ok)], middlewares=[StatsMiddleware()])
        from clastic.middleware import SimpleProfileMiddleware
        mws = [SimpleProfileMiddleware(), StatsMiddleware()]

        def parse(v):
            return Response('n=%d' % int(v))
        self.app = Application([('/raise422', raise422), ('/inner', inner), ('/parse/<v>', parse),
                                ('/ok', ok), ('/redir', redir), ('/raise403', raise403), ('/ret404', ret404),
                                ('/boom', boom), ('/nb', nb), ('/reroute', reroute), ('/stats', create_stats_app()),
                                ('/<x>', catch), POST('/only/post', ok)], middlewares=mws)
        # the list stays the caller's: a middleware put into it afterwards is not the application's
        mws.insert(0, StatsMiddleware())
        # another application in the same process with its own StatsMiddleware
        self.other = Application([('/ok', ok), ('/other', ok), ('/stats', create_stats_app())], middlewares=[StatsMiddleware()])
        self.model = {}

    def count(self, pattern, key):
        self.model.setdefault(pattern, {})
        self.model[pattern][key] = self.model[pattern].get(key, 0) + 1

    def step(self, s):
        """Returns (kind, message) on violation else None."""
        app = self.app
        if s in ROUTES:
            path, method, expect, counts = {
                'ok': ('/ok', 'GET', 200, [('/ok', '200')]),
                'redir': ('/redir', 'GET', 302, [('/redir', '302')]),
                'raise403': ('/raise403', 'GET', 403, [('/raise403', '403')]),
                'ret404': ('/ret404', 'GET', 404, [('/ret404', '404')]),
                'boom': ('/boom', 'GET', 500, [('/boom', 'ValueError')]),
                'nb': ('/nb', 'GET', 200, [('/nb', '404'), ('/<x>', '200')]),
                'catch': ('/zzz', 'GET', 200, [('/<x>', '200')]),
                'nf': ('/a/b/c', 'GET', 404, [('/<_ignored*>', '404')]),
                'mna': ('/only/post', 'GET', 405, [('/<_ignored*>', '405')]),
                'reroute': ('/reroute', 'GET', 200, [('/reroute', 'RerouteWSGI')]),
                'raise422': ('/raise422', 'GET', 422, [('/raise422', '422')]),
                'inner-ok': ('/inner/ok', 'GET', 200, [('/inner/ok', '200')]),
                'parse-ok': ('/parse/7', 'GET', 200, [('/parse/<v>', '200')]),
                'parse-bad': ('/parse/seven', 'GET', 500, [('/parse/<v>', 'ValueError')]),
            }[s]
            res = wsgi.call(app, path, method, query='_prof=1' if s == 'parse-bad' else '')
            for p, k in counts:
                self.count(p, k)
            if res.raised is not None:
                return ('request-raised', '%s raised %r' % (s, res.raised))
            if res.code != expect:
                return ('status-%s-%s' % (s, res.code), 'request %s answered %s, expected %s' % (s, res.status, expect))
            return None
        if s == 'swap-handler':
            from clastic.errors import ErrorHandler
            self.swaps = getattr(self, 'swaps', 0) + 1
            app.set_error_handler(ErrorHandler() if self.swaps % 2 else None)
            return None
        if s == 'late-add':
            from werkzeug.wrappers import Response
            self.adds = getattr(self, 'adds', 0) + 1
            app.add(('/only/late%d' % self.adds, lambda: Response('late')))
            return None
        if s == 'other-app':
            for p in ('/ok', '/other', '/nowhere'):
                r = wsgi.call(self.other, p, 'GET')
                if r.raised is not None:
                    return ('request-raised', 'other application raised %r' % (r.raised,))
            return None
        if s == 'other-reset':
            r = wsgi.call(self.other, '/stats/reset', 'POST', query='format=json')
            if r.raised is not None or r.code != 200:
                return ('other-reset', 'reset of the other application answered %s %r' % (r.status, r.raised))
            return None
        if s in ('read-html', 'reset-html'):
            path, method = ('/stats/', 'GET') if s == 'read-html' else ('/stats/reset', 'POST')
            res = wsgi.call(app, path, method, headers={'Accept': 'text/html,application/xhtml+xml,application/xml;q=0.9,*/*;q=0.8'})
            if s == 'reset-html':
                self.model = {}
            self.count(path, '200')
            if res.raised is not None or res.code != 200 or b'<' not in (res.body or b''):
                return ('stats-page-failed', '%s %s as a browser asks for it answered %s %r %r' % (method, path, res.status, res.raised, (res.body or b'')[:120]))
            return None
        if s == 'read':
            res = wsgi.call(app, '/stats/', 'GET', query='format=json')
            got = self.parse(res)
            want = dict((p, dict(c)) for p, c in self.model.items())
            self.count('/stats/', '200')
            if got is None:
                return ('stats-unreadable', 'stats read answered %s %r' % (res.status, (res.body or b'')[:200]))
            if got != want:
                return (self.diffkind(got, want), 'stats report %r, model %r' % (got, want))
            return None
        if s == 'reset':
            res = wsgi.call(app, '/stats/reset', 'POST', query='format=json')
            got = self.parse(res)
            want = dict((p, dict(c)) for p, c in self.model.items())
            self.model = {}
            self.count('/stats/reset', '200')
            if got is None:
                return ('stats-unreadable', 'reset answered %s %r' % (res.status, (res.body or b'')[:200]))
            if got != want:
                return (self.diffkind(got, want), 'reset returned %r, model says totals so far are %r' % (got, want))
            return None

    @staticmethod
    def diffkind(got, want):
        for p in sorted(set(got) | set(want)):
            g, w = got.get(p, {}), want.get(p, {})
            if g != w:
                keys = sorted(set(g) | set(w))
                k = [k for k in keys if g.get(k) != w.get(k)][0]
                return 'count-mismatch:%s:%s:%s-vs-%s' % (p, k, g.get(k, 0), w.get(k, 0))
        return 'count-mismatch'

    @staticmethod
    def parse(res):
        if res.raised is not None or res.code != 200:
            return None
        try:
            d = json.loads(res.body.decode('utf-8'))
            out = {}
            for p, by_status in d['route_stats'].items():
                out[p] = dict((k.strip("'\""), v['count']) for k, v in by_status.items())
            return out
        except Exception:
            return None


STEPS_CORE = ['ok', 'raise403', 'ret404', 'boom', 'nb', 'nf', 'mna', 'read', 'reset']


def histories(tier):
    """Maximal histories: the full alphabet to depth 3 (thorough 4), the core alphabet one step deeper."""
    d_full = 3 if tier == 'quick' else 4
    for hist in itertools.product(STEPS, repeat=d_full):
        yield hist
    for hist in itertools.product(STEPS_CORE, repeat=d_full + 1):
        yield hist


def counting(acc, tier, i, n):
    depth = 4 if tier == 'quick' else 5
    k = 0
    for d in (depth,):
        for hist in histories(tier):
            k += 1
            if k % n != i:
                continue
            if k % 200 == i and deadline_passed():
                acc.extra['cap_hit'] = 1
                return
            w = StatsWorld()
            acc.evaluated += 1
            if any(s in ('boom', 'raise403', 'ret404', 'nb', 'nf', 'mna') for s in hist):
                acc.add('nontrivial')
            for pos, s in enumerate(hist):
                acc.transitions += 1
                acc.validated += 1
                bad = w.step(s)
                if bad:
                    acc.violation('C19:counting:%s' % bad[0], '%s; history %r, step %d' % (bad[1], hist, pos),
                                  {'part': 'counting', 'history': list(hist[:pos + 1])})
                    break
            # final read so that the last step is observed too
            else:
                bad = w.step('read')
                acc.transitions += 1
                if bad:
                    acc.violation('C19:counting:%s' % bad[0], '%s; history %r + read' % (bad[1], hist),
                                  {'part': 'counting', 'history': list(hist) + ['read']})
            acc.outcome('counting-history-depth-%d' % len(hist))
            if k % 3001 == i:
                acc.sample({'history': list(hist)})


def long_history(acc):
    """Counts stay exact beyond the capacity of the per-route sample store (2**14 samples)."""
    w = StatsWorld()
    n = 2 ** 14 + 40
    for k in range(n):
        w.step('ok')
        if k % 4096 == 0:
            w.step('raise403')
    acc.transitions += n
    acc.evaluated += 1
    acc.validated += 1
    acc.add('nontrivial')
    bad = w.step('read')
    acc.outcome('counting-long-history')
    if bad:
        acc.violation('C19:counting-beyond-sample-capacity:%s' % bad[0].split(':')[0], '%s; after %d requests to one route' % (bad[1][:300], n),
                      {'part': 'long', 'n': n})


def nshards(tier):
    return 32


def shard(tier, i, n, seed):
    common.setup_repo()
    acc = common.Acc()
    reservoir_bfs(acc, tier, i, n)
    counting(acc, tier, i, n)
    if i == 2 % n:
        long_history(acc)
    return acc


def finish(tier, merged, results):
    if not merged['violations']:
        if merged['outcomes'].get('reservoir-states', 0) < 500:
            raise common.InternalError('vacuous: few reservoir states')
    return {'bounds': {'reservoir_ops': 7 if tier == 'quick' else 9, 'capacities': [1, 2, 3], 'resize_to': [1, 2, 3, 4],
                       'random_answers': 'every index 0..total_count at every sampling add',
                       'counting_history_depth': '3 over the full alphabet, 4 over the core alphabet' if tier == 'quick' else '4 / 5',
                       'counting_alphabet': STEPS, 'counting_core_alphabet': STEPS_CORE},
            'distinct_nontrivial': merged['extra'].get('nontrivial', 0),
            'coverage': {'reservoir_states': merged['outcomes'].get('reservoir-states', 0),
                         'note': 'reservoir states are explored per shard below the depth-1 frontier; a state reachable '
                                 'in the sub-trees of two shards is counted twice'}}


def replay(case):
    common.setup_repo()
    if case['part'] == 'reservoir':
        import clastic.middleware.stats as st
        script = Script()
        orig = st.random
        st.random = script
        try:
            mcap, cap, data, total = case['state']
            r = materialise(st, (mcap, cap, tuple(data), total))
            op, arg = case['op']
            try:
                if op == 'add':
                    if arg is not None:
                        script.answer = (arg, total + 2)
                    r.add(total)
                elif op == 'resize':
                    r.resize(arg)
                else:
                    list(r)
            except Exception as e:
                return False, 'raised %r' % (e,)
            rcap, ndata, ntotal = observe(r)
            ncap = arg if op == 'resize' else mcap
            if len(ndata) > ncap:
                return False, 'over capacity: holds %r with capacity %r' % (ndata, ncap)
            return True, 'ok %r' % ((ncap, ndata, ntotal),)
        finally:
            st.random = orig
    if case['part'] == 'long':
        acc = common.Acc()
        long_history(acc)
        return (not acc.violations), (acc.violations[0]['desc'] if acc.violations else 'ok')
    w = StatsWorld()
    for s in case['history']:
        bad = w.step(s)
        if bad:
            return False, bad[1]
    return True, 'ok'
