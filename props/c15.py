# -*- coding: utf-8 -*-
"""C15 - built-in middlewares never change what the client receives.

Every built-in middleware in its default configuration alone and in every
ordered stack of two (thorough: three) distinct ones, installed on a scenario
application that produces every response kind; each request of the catalogue
(scenario x body x Accept-Encoding x query x method) is answered by the
stacked application and by the same application without the stack, and
status and decoded body must agree; gzip-specific clauses are checked on the
raw response.
"""
import gzip
import itertools
import os
import time

from mc import common, wsgi

ID = 'C15'
LEVEL = 'model_checking'
BUDGET = {'quick': 300, 'thorough': 2400}
RULE = ('middleware stacks (all singles, ordered pairs and ordered triples; thorough: all ordered quadruples) x request catalogue enumerated '
        'completely; one evaluation = one request answered by both applications; non-trivial = a stack containing gzip '
        'with a client that accepts gzip, or an error/redirect scenario; distinct = distinct (stack, scenario, '
        'encoding-applied) classes')
ASSUMPTIONS = ['differential oracle: the same scenario application without the middleware stack',
               'a client accepts gzip when its Accept-Encoding gives gzip (or *, absent an explicit gzip entry) q > 0',
               'bodies of uncaught-exception 500s are compared on their first line only (they embed the frame count)']

MW_NAMES = ['gzip', 'cache', 'stats', 'profile', 'cookie', 'ctxproc', 'getparam', 'postdata', 'scriptroot', 'simplectx',
            'ctxdefaults']
BODIES = ['empty', 'one', 'kb', 'big', 'rand', 'binary', 'nonascii']
AE = [None, 'gzip', 'gzip;q=0', '*', 'identity', 'deflate, gzip;q=0.5', '*;q=0', 'identity;q=1, *;q=0', 'gzip;q=0.0, *;q=1',
      'GZIP']
QUERIES = ['', 'page=abc&q=x', 'page=3&q=', '_prof_sort=alphabetical&_prof_sort2=']


def deadline_passed():
    d = os.environ.get('VERIF_DEADLINE')
    return bool(d) and time.time() > float(d)


def body_bytes(kind):
    if kind == 'empty':
        return b''
    if kind == 'one':
        return b'x'
    if kind == 'kb':
        return (b'hello compressible world ' * 50)[:1024]
    if kind == 'big':
        return (b'0123456789abcdef' * 4096)
    if kind == 'rand':
        import hashlib
        out = b''
        i = 0
        while len(out) < 4096:
            out += hashlib.sha256(b'seed%d' % i).digest()
            i += 1
        return out[:4096]
    if kind == 'binary':
        return bytes(range(256)) * 8
    if kind == 'nonascii':
        return (u'caf\xe9 中文 ' * 100).encode('utf-8')
    raise ValueError(kind)


def make_mw(name):
    from clastic import middleware as M
    from clastic.middleware.cookie import SignedCookieMiddleware
    from clastic.middleware.stats import StatsMiddleware
    from clastic.middleware.form import PostDataMiddleware
    from clastic.middleware.url import ScriptRootMiddleware
    if name == 'gzip':
        return M.GzipMiddleware()
    if name == 'cache':
        return M.HTTPCacheMiddleware()
    if name == 'stats':
        return StatsMiddleware()
    if name == 'profile':
        return M.SimpleProfileMiddleware()
    if name == 'cookie':
        return SignedCookieMiddleware(secret_key=b'k15')
    if name == 'ctxproc':
        return M.ContextProcessor()
    if name == 'simplectx':
        return M.SimpleContextProcessor()
    if name == 'ctxdefaults':
        # defaults for keys the endpoint supplies itself (with falsy values): they must not be overwritten
        return M.ContextProcessor(defaults={'n': 10, 'flag': True, 'name': 'default-name', 'items': [1]})
    if name == 'getparam':
        return M.GetParamMiddleware({'page': int, 'q': str})
    if name == 'postdata':
        return PostDataMiddleware({'n': int, 'p': str})
    if name == 'scriptroot':
        return ScriptRootMiddleware()
    raise ValueError(name)


def build(stack):
    from clastic import Application, POST
    from clastic.errors import Forbidden, NotFound, ServiceUnavailable
    from werkzeug.wrappers import Response
    from werkzeug.utils import redirect

    UNSET = object()

    def ep_resp(request, page=UNSET, q=UNSET):
        # what GetParamMiddleware hands over must be what its documentation says: the query parameter, converted
        for name, got, typ in (('page', page, int), ('q', q, str)):
            if got is not UNSET and got != request.args.get(name, None, typ):
                return Response(('extracted %s=%r, the query string says %r' % (name, got, request.args.get(name, None, typ))).encode('utf-8'))
        b = request.args.get('b', 'kb')
        ct = 'application/octet-stream' if b in ('binary', 'rand') else 'text/plain; charset=utf-8'
        return Response(body_bytes(b), content_type=ct)

    def ep_ctx(request):
        return {'b': request.args.get('b', 'kb'), 'n': 0, 'flag': False, 'name': '', 'items': []}

    def render(context):
        tail = ('|%r|%r|%r|%r' % (context['n'], context['flag'], context['name'], context['items'])).encode('ascii')
        return Response(body_bytes(context['b']) + tail, content_type='text/html; charset=utf-8')

    def ep_stream(request):
        data = body_bytes(request.args.get('b', 'kb'))
        return Response(iter([data[:10], data[10:]]), content_type='text/plain')

    def ep_deflated():
        # a body that already carries a content coding of its own (stored deflate blocks: still compressible)
        import zlib
        raw = zlib.compressobj(0)
        data = raw.compress(b'pre-encoded payload ' * 4000) + raw.flush()
        return Response(data, content_type='text/plain', headers={'Content-Encoding': 'deflate'})

    def ep_redir():
        return redirect('/resp?b=kb')

    def raise4():
        raise Forbidden('no ' * 200)

    def ret4():
        return NotFound('nope ' * 200)

    def raise5():
        raise ServiceUnavailable('later ' * 200)

    def nb():
        raise NotFound(is_breaking=False)

    def second():
        return Response(b'second ' * 300)

    def boom():
        raise ValueError('boom')

    def posted(request, p=UNSET, n=UNSET):
        # what PostDataMiddleware hands over must be the form field of that name, converted - nothing else
        for name, got, typ in (('p', p, str), ('n', n, int)):
            if got is not UNSET and got != request.form.get(name, None, typ):
                return Response(('extracted %s=%r, the form says %r' % (name, got, request.form.get(name, None, typ))).encode('utf-8'))
        return Response(('posted:%s:%s' % (request.form.get('p'), request.form.get('n'))).encode('utf-8'))
    def ep_ctxlist():
        return [{'id': 1}, {'id': 2}]          # a render context that is not a mapping: context processors pass it on

    def ep_ctxstr():
        return 'a plain string context'

    def render_any(context):
        return Response(repr(context).encode('utf-8'), content_type='text/plain')
    def ep_textchunks():
        return Response([u'h\xe9llo ', u'w\xf6rld ' * 300], content_type='text/plain; charset=utf-8')   # text chunks

    def ep_noctype():
        r = Response(b'raw bytes ' * 300)
        del r.headers['Content-Type']
        return r

    def ep_204():
        r = Response(status=204)
        del r.headers['Content-Type']
        return r
    def ep_ctxfrozen():
        import types as _types
        return _types.MappingProxyType({'b': 'kb', 'own': 1})     # a read-only mapping as render context
    from clastic.utils import Redirector
    from clastic import Route, middleware as _M

    def ep_ctxown():
        return {'own': 1}
    routes = [Route('/ctxroute', ep_ctxown, render_any, middlewares=[_M.ContextProcessor(defaults={'route_default': 'rd'})]),
              ('/rdr', Redirector('/resp?b=kb', code=302)), ('/ctxfrozen', ep_ctxfrozen, render_any), ('/textchunks', ep_textchunks), ('/noctype', ep_noctype), ('/nocontent', ep_204),
              ('/ctxlist', ep_ctxlist, render_any), ('/ctxstr', ep_ctxstr, render_any),
              ('/resp', ep_resp), ('/ctx', ep_ctx, render), ('/stream', ep_stream), ('/deflated', ep_deflated), ('/redir', ep_redir),
              ('/branch/', ep_resp),
              ('/raise4', raise4), ('/ret4', ret4), ('/raise5', raise5), ('/nb', nb), ('/nb', second), ('/boom', boom),
              POST('/post', posted)]
    return Application(routes, middlewares=[make_mw(n) for n in stack])


def request_catalogue():
    """(label, path, method, query-extra, body)"""
    out = []
    for b in BODIES:
        out.append(('resp-' + b, '/resp', 'GET', 'b=' + b, b''))
        out.append(('ctx-' + b, '/ctx', 'GET', 'b=' + b, b''))
    out.append(('stream', '/stream', 'GET', 'b=kb', b''))
    out.append(('deflated', '/deflated', 'GET', '', b''))
    out.append(('head', '/resp', 'HEAD', 'b=kb', b''))
    out.append(('redir', '/redir', 'GET', '', b''))
    out.append(('slash-redirect', '/branch', 'GET', 'b=kb', b''))
    out.append(('raise4', '/raise4', 'GET', '', b''))
    out.append(('ret4', '/ret4', 'GET', '', b''))
    out.append(('raise5', '/raise5', 'GET', '', b''))
    out.append(('fallthrough', '/nb', 'GET', '', b''))
    out.append(('boom', '/boom', 'GET', '', b''))
    out.append(('unknown', '/zz/top', 'GET', '', b''))
    out.append(('wrong-method', '/post', 'GET', '', b''))
    for ck in sorted(COOKIE_HDRS):
        out.append((ck, '/resp', 'GET', 'b=kb', b''))
    out.append(('cookie-nonascii-key-404', '/zz/top', 'GET', '', b''))
    out.append(('redirector', '/rdr', 'GET', '', b''))
    out.append(('ctxfrozen', '/ctxfrozen', 'GET', '', b''))
    out.append(('textchunks', '/textchunks', 'GET', '', b''))
    out.append(('noctype', '/noctype', 'GET', '', b''))
    for lbl, pth in (('noctype', '/noctype'), ('resp-kb', '/resp'), ('resp-binary', '/resp'), ('nocontent', '/nocontent'), ('ctx-kb', '/ctx')):
        out.append((lbl + '@msie', pth, 'GET', 'b=binary' if 'binary' in lbl else 'b=kb', b''))
    out.append(('nocontent', '/nocontent', 'GET', '', b''))
    out.append(('ctxlist', '/ctxlist', 'GET', '', b''))
    # a route that carries a configured ContextProcessor of its own (see check_stack for the stacks it applies to)
    out.append(('ctxroute', '/ctxroute', 'GET', '', b''))
    out.append(('ctxstr', '/ctxstr', 'GET', '', b''))
    out.append(('post', '/post', 'POST', '', b'p=1&n=abc'))
    out.append(('post-num', '/post', 'POST', '', b'p=&n=12'))
    # the URL carries parameters named like the form fields
    out.append(('post-query-clash', '/post', 'POST', 'p=from-url&n=7', b'p=1&n=abc'))
    out.append(('post-query-only', '/post', 'POST', 'p=from-url&n=7', b''))
    # a large form (a pasted document): 600 kB in one field, 20 000 small fields
    out.append(('post-big-field', '/post', 'POST', '', b'n=5&p=' + b'x' * 600000))
    out.append(('post-many-fields', '/post', 'POST', '', b'n=5&p=1&' + b'&'.join(b'f%d=v' % i for i in range(3000))))
    return out


def accepts_gzip(ae):
    if ae is None:
        return False
    items = {}
    for part in ae.split(','):
        bits = part.strip().split(';')
        name = bits[0].strip().lower()
        q = 1.0
        for b in bits[1:]:
            b = b.strip()
            if b.startswith('q='):
                try:
                    q = float(b[2:])
                except ValueError:
                    q = 1.0
        items[name] = q
    if 'gzip' in items:
        return items['gzip'] > 0
    if '*' in items:
        return items['*'] > 0
    return False


def undo_codings(header, data):
    import zlib
    codings = [c.strip().lower() for c in (header or '').split(',') if c.strip()]
    try:
        for c in reversed(codings):
            if c == 'gzip':
                data = gzip.decompress(data)
            elif c == 'deflate':
                try:
                    data = zlib.decompress(data)
                except zlib.error:
                    data = zlib.decompress(data, -15)
            elif c == 'identity':
                pass
            else:
                return None
        return data
    except Exception:
        return None


COOKIE_HDRS = {
    # what a client may send as the signed cookie: a key with non-ASCII bytes, broken base64, no MAC at all, junk
    'cookie-nonascii-key': u'clastic_cookie=AAAA?n\xe4me=IkFsaWNlIg=='.encode('utf-8').decode('latin-1'),
    'cookie-bad-base64': 'clastic_cookie=%%%?a=b&c',
    'cookie-no-mac': 'other=1; clastic_cookie=zzz',
    'cookie-empty': 'clastic_cookie=',
    'cookie-binary': 'clastic_cookie=\xff\xfe?\x80=\x81',
}
COOKIE_HDRS['cookie-nonascii-key-404'] = COOKIE_HDRS['cookie-nonascii-key']


def call(app, path, method, query, ae, body, rlabel=None):
    hdrs = {}
    if rlabel and rlabel.endswith('@msie'):
        hdrs['User-Agent'] = 'Mozilla/4.0 (compatible; MSIE 8.0; Windows NT 6.1)'      # the gzip middleware looks at it
    if rlabel in COOKIE_HDRS:
        hdrs['Cookie'] = COOKIE_HDRS[rlabel]
    if ae is not None:
        hdrs['Accept-Encoding'] = ae
    if body:
        hdrs['Content-Type'] = 'application/x-www-form-urlencoded'
    return wsgi.call(app, path, method, query=query, headers=hdrs, body=body)


def check_stack(acc, stack, baseline_app, cache):
    label = '+'.join(stack)
    case0 = {'stack': list(stack)}
    try:
        app = build(stack)
    except Exception as e:
        acc.violation('C15:construct:%s' % type(e).__name__, 'stack %r cannot be installed: %r' % (stack, e), case0)
        return
    passes = [request_catalogue()]
    if len(stack) <= 2:
        passes.append(list(reversed(request_catalogue())))       # history dependence: same requests, reverse order
    for rlabel, path, method, qx, body in itertools.chain(*passes):
        for q in QUERIES:
            query = '&'.join(x for x in (qx, q) if x)
            aes = AE if (rlabel.startswith('resp-') or rlabel.startswith('ctx-') or rlabel.endswith('@msie') or rlabel in ('raise4', 'ret4', 'fallthrough', 'stream', 'deflated', 'redirector')) else AE[:3]
            if q and not rlabel.startswith('resp-k'):
                aes = aes[:2]
            if rlabel in ('post-big-field', 'post-many-fields') and (len(stack) > 2 or q):
                continue      # the large forms go through single middlewares and ordered pairs
            if rlabel == 'ctxroute' and ('ctxproc' in stack or 'ctxdefaults' in stack):
                # an application-level middleware of the very same (unique) type replaces the route's: the merge rule
                continue
            for ae in aes:
                key = (rlabel, query, ae)
                base = cache.get(key)
                if base is None:
                    base = cache[key] = call(baseline_app, path, method, query, ae, body, rlabel)
                res = call(app, path, method, query, ae, body, rlabel)
                acc.evaluated += 1
                acc.transitions += 2
                acc.validated += 1
                case = {'stack': list(stack), 'request': [rlabel, path, method, query, ae]}
                enc = (res.header('Content-Encoding') or '') if res.headers else ''
                gz = 'gzip' in enc.lower()
                acc.outcome('%s|%s|%s' % (label if len(stack) == 1 else '%d-stack' % len(stack), rlabel.split('-')[0], 'gz' if gz else 'id'))
                if ('gzip' in stack and accepts_gzip(ae)) or not rlabel.startswith('resp') and not rlabel.startswith('ctx'):
                    acc.add('nontrivial')

                def bad(kind, msg):
                    culprit = [m for m in stack if m in ('gzip', 'cache', 'stats', 'getparam', 'postdata', 'cookie', 'profile')]
                    acc.violation('C15:%s:%s:%s' % (kind, rlabel.split('-')[0], '+'.join(sorted(set(stack)))[:60] if len(stack) == 1 else kind_of_stack(stack)),
                                  '%s; stack %r request %s %s?%s Accept-Encoding=%r: with stack %s, without %s'
                                  % (msg, stack, method, path, query, ae, res.status, base.status), case)
                if res.raised is not None:
                    bad('raised-%s' % type(res.raised).__name__, 'application raised %r' % (res.raised,))
                    continue
                if res.code != base.code:
                    bad('status-%s-vs-%s' % (res.code, base.code), 'status changed')
                    continue
                raw = res.body or b''
                decoded = raw
                if gz:
                    try:
                        decoded = gzip.decompress(raw) if (raw or method != 'HEAD') else raw
                    except Exception as e:
                        bad('gzip-corrupt', 'body does not gunzip: %r' % (e,))
                        continue
                    if not accepts_gzip(ae):
                        bad('gzip-not-accepted', 'gzip sent to a client that does not accept it')
                        continue
                    cl = res.header('Content-Length')
                    if method != 'HEAD' and (cl is None or int(cl) != len(raw)):
                        bad('gzip-content-length', 'Content-Length %r but %d bytes sent' % (cl, len(raw)))
                        continue
                    if 'accept-encoding' not in (res.header('Vary') or '').lower():
                        bad('gzip-vary', 'Vary %r lacks Accept-Encoding' % res.header('Vary'))
                        continue
                else:
                    if 'gzip' in stack and accepts_gzip(ae) and res.code == 200 and base.code == 200 and method == 'GET' \
                            and hasattr(res, 'header') and (rlabel in ('stream', 'textchunks', 'deflated') or rlabel.startswith('resp-') or rlabel.startswith('ctx-')) \
                            and 'accept-encoding' not in (res.header('Vary') or '').lower():
                        # the client accepts gzip and got the identity coding of a representation that has (or may
                        # have) a gzip variant: caches must be told the choice depends on Accept-Encoding
                        bad('vary-missing', 'client accepts gzip, response not compressed, Vary %r lacks Accept-Encoding' % res.header('Vary'))
                        continue
                    cl = res.header('Content-Length')
                    if cl is not None and method != 'HEAD' and int(cl) != len(raw):
                        bad('content-length', 'Content-Length %r but %d bytes sent' % (cl, len(raw)))
                        continue
                want = base.body or b''
                if rlabel == 'deflated':
                    # what a client ends up with after undoing the codings the response declares
                    decoded = undo_codings(res.header('Content-Encoding'), raw)
                    want = undo_codings(base.header('Content-Encoding'), want)
                    if decoded is None:
                        bad('coding-corrupt', 'body cannot be decoded per its Content-Encoding %r' % res.header('Content-Encoding'))
                        continue
                if rlabel == 'boom':
                    decoded, want = decoded.split(b'\n')[0], want.split(b'\n')[0]
                if decoded != want:
                    bad('body', 'decoded body differs (%d vs %d bytes): %r vs %r' % (len(decoded), len(want), decoded[:60], want[:60]))
                    continue
                if (res.header('Location') or None) != (base.header('Location') or None):
                    bad('location', 'Location %r vs %r' % (res.header('Location'), base.header('Location')))


def kind_of_stack(stack):
    return 'stack-with-' + '+'.join(sorted(set(stack) & set(['gzip', 'cache', 'stats', 'cookie', 'profile', 'getparam', 'postdata'])))[:50]


def stacks(tier):
    out = [(m,) for m in MW_NAMES]
    out += list(itertools.permutations(MW_NAMES, 2))
    out += list(itertools.permutations(MW_NAMES, 3))
    if tier == 'thorough':
        out += list(itertools.permutations(MW_NAMES, 4))
    return out


def nshards(tier):
    return 32


def check_long_lived(acc):
    """A long-lived process: more requests than the statistics keep samples for (2**14 per route and status) have gone
    through StatsMiddleware; the next ones - under every position the sampling can draw, the random source being a
    scripted seam - are still answered exactly like without the middleware."""
    import clastic.middleware.stats as st

    class Script(object):
        value = None

        def random(self):
            return 0.0 if self.value is None else self.value
    script = Script()
    orig = st.random
    st.random = script
    try:
        for stack in (('stats',), ('gzip', 'stats'), ('stats', 'cache')):
            app, base = build(stack), build(())
            want = call(base, '/resp', 'GET', 'b=kb', None, b'')
            n_fill = 2 ** 14 + 3
            for _ in range(n_fill):
                app(wsgi.make_environ('/resp', 'GET', query='b=kb'), lambda s, h, e=None: None)
            acc.transitions += n_fill
            total = n_fill
            for idx in (0, 1, 2 ** 14 - 1, 2 ** 14, 2 ** 14 + 1, total - 1, total, total + 1):
                script.value = min(0.999999999, (idx + 0.5) / float(total + 2))
                res = call(app, '/resp', 'GET', 'b=kb', None, b'')
                total += 1
                acc.transitions += 1
                acc.validated += 1
                if res.raised is not None or res.code != want.code or res.body != want.body:
                    acc.violation('C15:long-lived:%s' % res.code, 'after %d requests through %r the next one (sampling position %d) answered '
                                  '%s %r, without the middlewares %s' % (total, stack, idx, res.status, res.raised, want.status),
                                  {'long_lived': True, 'stack': list(stack)})
                    return
            script.value = None
        acc.outcome('long-lived|ok')
    finally:
        st.random = orig


def shard(tier, i, n, seed):
    common.setup_repo()
    acc = common.Acc()
    if i == 5 % n:
        check_long_lived(acc)
    baseline = build(())
    cache = {}
    for k, stack in enumerate(stacks(tier)):
        if k % n != i:
            continue
        if deadline_passed():
            acc.extra['cap_hit'] = 1
            break
        check_stack(acc, stack, baseline, cache)
        if k % 13 == 0:
            acc.sample({'stack': list(stack), 'requests': len(request_catalogue())})
    return acc


def finish(tier, merged, results):
    oc = merged['outcomes']
    if not merged['violations']:
        if not any(k.endswith('|gz') for k in oc) or not any(k.endswith('|id') for k in oc):
            raise common.InternalError('vacuous: gzip never applied / always applied')
    return {'space_size': None, 'bounds': {'middlewares': MW_NAMES, 'stacks': len(stacks(tier)), 'bodies': BODIES,
                                           'accept_encodings': AE, 'queries': QUERIES,
                                           'request_kinds': len(request_catalogue())},
            'distinct_nontrivial': merged['extra'].get('nontrivial', 0)}


def replay(case):
    if case.get('long_lived'):
        common.setup_repo()
        acc = common.Acc()
        check_long_lived(acc)
        return (False, acc.violations[0]['desc'][:2000]) if acc.violations else (True, 'ok')
    common.setup_repo()
    acc = common.Acc()
    stack = tuple(case['stack'])
    baseline = build(())
    if 'request' not in case:
        try:
            build(stack)
            return True, 'ok'
        except Exception as e:
            return False, repr(e)
    rlabel, path, method, query, ae = case['request']
    body = b'p=1&n=abc' if method == 'POST' else b''
    app = build(stack)
    base = call(baseline, path, method, query, ae, body, rlabel)
    res = call(app, path, method, query, ae, body, rlabel)
    if res.raised is not None or res.code != base.code:
        return False, 'with stack: %s raised=%r, without: %s' % (res.status, res.raised, base.status)
    raw = res.body or b''
    if 'gzip' in (res.header('Content-Encoding') or '').lower():
        if not accepts_gzip(ae):
            return False, 'gzip sent although not accepted'
        raw = gzip.decompress(raw)
    want = base.body or b''
    if rlabel == 'boom':
        raw, want = raw.split(b'\n')[0], want.split(b'\n')[0]
    if raw != want:
        return False, 'body differs'
    return True, 'ok'
