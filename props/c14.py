# -*- coding: utf-8 -*-
"""C14 - static serving never leaves its roots and serves files faithfully.

A directory tree is generated per run (nested directories, text / binary /
empty files, names with dots, spaces, non-ASCII, '..x', secrets beside and
above the roots, a sibling whose name has the root's name as a prefix).
Enumerated completely: every request path of <= N segments over a segment
alphabet (existing names, '.', '..', '', '...', pieces of the absolute path,
encoded-looking names) x prefixes x slash modes x one/two search paths, judged
by an in-memory model of the tree; conditional requests; and (E4) for every
served request an OS error / negative answer injected at every filesystem
call made while serving, one deviation at a time (thorough: two).
"""
import errno
import itertools
import mimetypes
import os
import posixpath
import shutil
import sys
import tempfile
import time

from mc import common, wsgi

ID = 'C14'
LEVEL = 'model_checking'
BUDGET = {'quick': 300, 'thorough': 2400}
RULE = ('request paths = all segment sequences up to the depth bound over the segment alphabet, for every (prefix, slash '
        'mode, search paths) configuration; faults = for every fault-free request of a catalogue, every filesystem call '
        'position x every alternative answer; one evaluation = one request; non-trivial = path containing ., .., empty or '
        'absolute-path segments, or a faulted request; distinct = distinct (verdict class, response status) classes')
ASSUMPTIONS = ['the in-memory model of the generated tree; normalisation by posixpath.normpath',
               'filesystem seams: clastic.static.isfile / open / os (getmtime, getsize) and the read of the sniffing peek',
               'symlink-free tree; names whose first component begins with ".." are only required to be refused or served '
               'faithfully, not to be served']

SECRET = b'TOP-SECRET-SENTINEL-7f3a'
MTIME = 1500000000
FUTURE = 4102444800       # 2100-01-01


def deadline_passed():
    d = os.environ.get('VERIF_DEADLINE')
    return bool(d) and time.time() > float(d)


class Tree(object):
    def __init__(self):
        self.base = tempfile.mkdtemp(prefix='cv')
        self.root = os.path.join(self.base, 'root')
        self.root2 = os.path.join(self.base, 'root2')
        self.fb = os.path.join(self.base, 'fb')
        self.files = {}
        w = self.write
        w('secret_above.txt', SECRET + b' above')
        w('root_private/secret.txt', SECRET + b' sibling sharing the prefix')
        w('other/secret.txt', SECRET + b' sibling')
        w('root/a.txt', b'alpha text\n')
        w('root/b.bin', bytes(range(256)) * 3)
        w('root/empty.dat', b'')
        w('root/sp ace.txt', b'space name')
        w(u'root/\xe9.txt', u'non-ascii \xe9'.encode('utf-8'))
        w('root/..x', b'dotdot-x file')
        w('root/dots.in.name.tar.gz', b'\x1f\x8b not really gzip')
        w('root/noext', b'plain text without extension')
        w('root/binnoext', b'\x00\x01\x02\xff binary without extension')
        w('root/sub/c.txt', b'charlie')
        w('root/sub/deep/d.txt', b'delta')
        w('root/page.html', b'<html><body>hi</body></html>')
        w('root2/a.txt', b'alpha from the second search path')
        w('root2/only2.txt', b'only in second')
        w('root2/sub/e.txt', b'echo')
        w('root/frac7.txt', b'mtime with a fraction that rounds up', MTIME + 0.7)
        w('root/frac3.txt', b'mtime with a fraction that rounds down', MTIME + 0.3)
        w('root/future.txt', b'a file dated in the future (clock skew, foreign archive)', FUTURE)
        w('root/clash/inside.txt', b'a directory called clash in the first root')
        w('root2/clash', b'a regular file called clash in the second root')
        w('fb/a.txt', b'FALLBACK a')
        w('fb/sub/c.txt', b'FALLBACK c')
        w('fb/fbonly.txt', b'FALLBACK only')

    def write(self, rel, content, mtime=MTIME):
        p = os.path.join(self.base, rel)
        os.makedirs(os.path.dirname(p), exist_ok=True)
        with open(p, 'wb') as f:
            f.write(content)
        os.utime(p, (mtime, mtime))
        self.files[rel] = content

    def lookup(self, rel, roots):
        """Model: content of the regular file at relative path `rel` in the first root that has it."""
        for r in roots:
            key = r + '/' + rel
            if key in self.files:
                return key, self.files[key]
        return None, None

    def cleanup(self):
        shutil.rmtree(self.base, ignore_errors=True)


def seg_alphabet(tree):
    base_parts = [p for p in tree.base.split('/') if p]
    return ['a.txt', 'sub', 'c.txt', 'deep', '.', '..', '', '...', 'root_private', 'secret.txt', 'root', 'root2',
            '%2e%2e', '..x', 'secret_above.txt'] + base_parts


class Seams(object):
    """Scripted environment for clastic.static: records calls, injects one or two deviations."""

    def __init__(self, static_mod):
        self.m = static_mod
        self.orig = (static_mod.isfile, getattr(static_mod, 'open', None), static_mod.os)
        self.calls = []
        self.faults = {}       # position -> errno or 'false'
        self.opened = []
        real_os = static_mod.os
        seams = self

        class PathProxy(object):
            def __getattr__(self, name):
                return getattr(real_os.path, name)

            def getmtime(self, p):
                seams.hit('getmtime', p)
                return real_os.path.getmtime(p)

            def getsize(self, p):
                seams.hit('getsize', p)
                return real_os.path.getsize(p)

        class OsProxy(object):
            path = PathProxy()

            def __getattr__(self, name):
                return getattr(real_os, name)
        self.os_proxy = OsProxy()
        self.real_isfile = static_mod.isfile

    def hit(self, name, arg):
        pos = len(self.calls)
        self.calls.append(name)
        f = self.faults.get(pos)
        if name == 'isfile':
            # os.path.isfile never raises: whatever deviation is scheduled for this position (after an earlier
            # deviation the call sequence may have shifted) can only make it answer False
            return 'false' if f is not None else None
        if f is not None and f != 'false':
            raise OSError(f, os.strerror(f), arg)
        return f

    def isfile(self, p):
        f = self.hit('isfile', p)
        if f == 'false':
            return False
        return self.real_isfile(p)

    def open(self, p, mode='r', *a, **kw):
        self.hit('open', p)
        fobj = open(p, mode, *a, **kw)
        seams = self

        class F(object):
            def __init__(self, f):
                self._f = f
                self.closed_by_app = False

            def read(self, *a):
                # only the type-sniffing peek made while the response is being built is an environment
                # answer of interest; reads made later while the body is streamed are not
                if sys._getframe(1).f_code.co_name == 'peek_file':
                    seams.hit('read', p)
                return self._f.read(*a)

            def close(self):
                self.closed_by_app = True
                return self._f.close()

            def __getattr__(self, name):
                return getattr(self._f, name)

            def __iter__(self):
                return iter(self._f)
        w = F(fobj)
        self.opened.append(w)
        return w

    def install(self):
        self.m.isfile = self.isfile
        self.m.open = self.open
        self.m.os = self.os_proxy

    def uninstall(self):
        self.m.isfile = self.orig[0]
        if self.orig[1] is None:
            try:
                del self.m.open
            except AttributeError:
                pass
        else:
            self.m.open = self.orig[1]
        self.m.os = self.orig[2]

    def reset(self, faults=None):
        self.calls = []
        self.faults = dict(faults or {})
        for f in self.opened:
            try:
                f._f.close()
            except Exception:
                pass
        self.opened = []


class World(object):
    def __init__(self, tree, prefix, mode, two_paths):
        from clastic import Application, StaticApplication
        self.tree = tree
        self.prefix = prefix
        self.roots = {False: ['root'], True: ['root', 'root2'], 'reversed': ['root2', 'root'], 'nested': ['root', 'root2'], 'index0': ['root', 'root2'],
                      'cached': ['root', 'root2'], 'spell-path': ['root'], 'spell-bytes': ['root'],
                      'spell-iter': ['root', 'root2'], 'spell-paths': ['root', 'root2'], 'late-dir': ['root', 'root2']}[two_paths]
        s1 = StaticApplication([os.path.join(tree.base, r) for r in self.roots])
        if two_paths == 'late-dir':
            # the first search directory does not exist yet when the application is constructed (a build / override
            # directory); it appears afterwards and is searched first from then on
            alias = os.path.join(tree.base, 'late-%d' % (id(self) % 100000))
            s1 = StaticApplication([alias, os.path.join(tree.base, 'root2')])
            if not os.path.lexists(alias):
                os.symlink(os.path.join(tree.base, 'root'), alias)
        if str(two_paths).startswith('spell-'):
            # other spellings of the search path: one pathlib.Path, one bytes path, a one-shot iterable, Path objects
            import pathlib
            full = [os.path.join(tree.base, r) for r in self.roots]
            s1 = StaticApplication({'spell-path': lambda: pathlib.Path(full[0]), 'spell-bytes': lambda: os.fsencode(full[0]),
                                    'spell-iter': lambda: iter(full), 'spell-paths': lambda: tuple(pathlib.Path(f) for f in full)}[two_paths]())
        s2 = StaticApplication(tree.fb)
        if two_paths == 'index0':
            # the way Application.serve() mounts a static directory: added at the head of a live application
            self.roots = ['root', 'root2']
            s1 = StaticApplication([os.path.join(tree.base, r) for r in self.roots])
            self.app = Application([(prefix, s2)], slash_mode=mode)
            self.app.add((prefix, s1), 0)
        elif two_paths == 'cached':
            # inside an application that carries the stock client-cache middleware: what the static applications
            # decline ends at the catch-all route, whose answer travels back through that middleware
            from clastic.middleware import HTTPCacheMiddleware
            self.app = Application([(prefix, s1), (prefix, s2)], slash_mode=mode, middlewares=[HTTPCacheMiddleware(max_age=60)])
        elif two_paths == 'nested':
            # mounted under /s in an application that is itself embedded under /v1
            inner = Application([('/s', s1), ('/s', s2)], slash_mode=mode)
            self.app = Application([('/v1', inner)], slash_mode=mode)
        else:
            self.app = Application([(prefix, s1), (prefix, s2)], slash_mode=mode)
        self.mode = mode
        self.order = self.roots + ['fb']

    def path_for(self, segs):
        return self.prefix.rstrip('/') + '/' + '/'.join(segs)


def expected_type(name, content):
    mt, enc = mimetypes.guess_type(name)
    if mt:
        return mt
    sample = content[:1024]
    printable = bytes([7, 8, 9, 10, 12, 13, 27] + list(range(32, 256)))
    if sample and sample.translate(None, printable):
        return 'application/octet-stream'
    return 'text/plain'


def judge(w, segs, res, faulted=False):
    """Returns None or (kind, message)."""
    tree = w.tree
    if res.raised is not None:
        return ('raised-%s' % type(res.raised).__name__, 'application raised %r' % (res.raised,))
    if res.code is None or res.code >= 500:
        return ('server-error', 'status %s' % res.status)
    body = res.body or b''
    if SECRET in body:
        return ('secret-disclosed', 'a file outside the search directories was disclosed: %r' % body[:80])
    # what the application sees: werkzeug collapses leading slashes of the request path
    eff = '/' + w.path_for(segs).lstrip('/')
    pfx = w.prefix.rstrip('/')
    if pfx and not (eff == pfx or eff.startswith(pfx + '/')):
        segs = None
    else:
        segs = eff[len(pfx):].split('/')[1:]
    if segs is None:
        return None if res.code in (403, 404) else ('status-%s' % res.code, 'path outside the prefix answered %s' % res.status)
    joined = '/'.join(segs)
    plain = bool(segs) and all(s not in ('', '.', '..') for s in segs) and not segs[0].startswith('..')
    norm = posixpath.normpath(joined) if joined else '.'
    escapes = norm == '..' or norm.startswith('../') or norm.startswith('/') or joined.startswith('/')
    key, content = (None, None) if escapes else tree.lookup(norm, w.order)
    if res.code == 200:
        if content is None:
            return ('served-nonexistent', '200 for %r which denotes no regular file inside the search directories (body %r)'
                    % (joined, body[:60]))
        if not faulted:
            if body != content:
                return ('wrong-bytes', 'body %r is not the content of %s (%r)' % (body[:60], key, content[:60]))
        else:
            ok = [c for r in w.order for k, c in [tree.lookup(norm, [r])] if c is not None]
            if body not in ok:
                return ('wrong-bytes', 'body %r is not the content of any candidate for %r' % (body[:60], norm))
            content = body
            key = [r + '/' + norm for r in w.order if tree.files.get(r + '/' + norm) == body][0]
        if res.header('Content-Length') != str(len(content)):
            return ('content-length', 'Content-Length %r for %d bytes' % (res.header('Content-Length'), len(content)))
        if not res.header('Last-Modified'):
            return ('last-modified-missing', 'no Last-Modified')
        ct = (res.header('Content-Type') or '').split(';')[0]
        want = expected_type(posixpath.basename(norm), content)
        if ct != want:
            return ('content-type', 'Content-Type %r, expected %r for %s' % (ct, want, key))
        return None
    if res.code in (403, 404):
        if plain and content is not None and not faulted and w.mode != 'strict-skip':
            return ('not-served', 'regular file %s exists at its plain relative path but the answer is %s' % (key, res.status))
        return None
    if res.code == 304:
        return ('unexpected-304', '304 without a conditional request')
    return ('status-%s' % res.code, 'unexpected status %s' % res.status)


def configs(tier):
    out = []
    for prefix in ('/', '/s', '/s/'):
        for mode in ('redirect', 'rewrite', 'strict'):
            for two in (False, True):
                out.append((prefix, mode, two))
    # the listing order of the search paths is their priority (not their alphabetical order)
    out.append(('/s', 'redirect', 'reversed'))
    out.append(('/', 'strict', 'reversed'))
    out.append(('/v1/s', 'redirect', 'nested'))
    out.append(('/v1/s', 'strict', 'nested'))
    out.append(('/s', 'redirect', 'index0'))
    for sp in ('spell-path', 'spell-bytes', 'spell-iter', 'spell-paths'):
        out.append(('/s', 'redirect', sp))
    out.append(('/s', 'redirect', 'late-dir'))
    out.append(('/s', 'redirect', 'cached'))
    out.append(('/', 'strict', 'cached'))
    return out


def path_depth(tier, ci):
    if tier == 'quick':
        return 4 if ci in (5, 9, 13) else 3
    return 5 if ci in (5, 9, 13) else 4


def sig_features(segs):
    f = []
    if '..' in segs:
        f.append('dotdot')
    if '' in segs:
        f.append('empty')
    if '.' in segs:
        f.append('dot')
    return '+'.join(f) or 'plain'


def run_paths(acc, tree, cfg, depth, i, n, counter):
    prefix, mode, two = cfg
    w = World(tree, prefix, mode, two)
    alphabet = seg_alphabet(tree)
    names = ['a.txt', 'b.bin', 'empty.dat', 'sp ace.txt', u'\xe9.txt', 'dots.in.name.tar.gz', 'noext', 'binnoext',
             'page.html', 'only2.txt', 'fbonly.txt', '..x', 'clash', 'frac7.txt']
    seqs = [[nm] for nm in names] + [['sub', 'c.txt'], ['sub', 'deep', 'd.txt'], ['sub', 'e.txt']]
    gen = itertools.chain(seqs, *[itertools.product(alphabet, repeat=d) for d in range(0, depth + 1)])
    for segs in gen:
        counter[0] += 1
        if counter[0] % n != i:
            continue
        if counter[0] % 4096 == i and deadline_passed():
            acc.extra['cap_hit'] = 1
            return
        segs = list(segs)
        res = wsgi.call(w.app, w.path_for(segs), 'GET')
        acc.evaluated += 1
        acc.transitions += 1
        acc.validated += 1
        bad = judge(w, segs, res)
        feat = sig_features(segs)
        if feat != 'plain':
            acc.add('nontrivial')
        acc.outcome('path|%s|%s' % (feat, res.code))
        if bad:
            acc.violation('C14:%s:%s:%s' % (bad[0], feat, mode), '%s; request %r (segments %r) config %r'
                          % (bad[1], w.path_for(segs), segs, cfg), {'kind': 'path', 'cfg': list(cfg), 'segs': segs})
        elif segs in seqs and not w.path_for(segs).startswith('//'):
            # the named files once more, the request line going through the development server's own parsing
            res2 = wsgi.call(w.app, None, environ=wsgi.dev_server_environ(w.path_for(segs), 'GET'))
            acc.transitions += 1
            acc.validated += 1
            bad2 = judge(w, segs, res2)
            if bad2 or res2.code != res.code:
                acc.violation('C14:dev-server:%s:%s' % ((bad2 or ('status-differs',))[0], feat), '%s; request %r through the development '
                              'server parsing answers %s, through a plain environ %s; config %r'
                              % ((bad2 or ('', ''))[1], w.path_for(segs), res2.status, res.status, cfg),
                              {'kind': 'path', 'cfg': list(cfg), 'segs': segs, 'dev_server': True})
        if counter[0] % 50021 == i:
            acc.sample({'config': list(cfg), 'segments': segs, 'status': res.code})


COND_FILES = [['a.txt'], ['sub', 'c.txt'], ['noext'], ['b.bin'], ['only2.txt'], ['frac7.txt'], ['frac3.txt'], ['future.txt']]


def http_date(ts):
    return time.strftime('%a, %d %b %Y %H:%M:%S GMT', time.gmtime(ts))


def run_conditional(acc, tree, cfg):
    prefix, mode, two = cfg
    w = World(tree, prefix, mode, two)
    for segs in COND_FILES:
        base = wsgi.call(w.app, w.path_for(segs), 'GET')
        lm = base.header('Last-Modified')
        fm = FUTURE if segs[-1] == 'future.txt' else MTIME
        for label, ims, want in (('before', http_date(fm - 100), 200), ('exact', lm, 304), ('after', http_date(fm + 100), 304)):
            if lm is None:
                continue
            if base.code != 200:
                continue
            res = wsgi.call(w.app, w.path_for(segs), 'GET', headers={'If-Modified-Since': ims})
            acc.evaluated += 1
            acc.transitions += 1
            acc.validated += 1
            acc.outcome('conditional|%s|%s' % (label, res.code))
            case = {'kind': 'conditional', 'cfg': list(cfg), 'segs': segs, 'ims': label}
            if res.raised is not None or res.code != want:
                acc.violation('C14:conditional-%s:%s' % (label, res.code), 'If-Modified-Since %s (%s) answered %s raised=%r, expected %s'
                              % (label, ims, res.status, res.raised, want), case)
            elif want == 304 and res.body:
                acc.violation('C14:conditional-304-body', '304 with a body of %d bytes' % len(res.body), case)
            elif want == 200:
                bad = judge(w, segs, res)
                if bad:
                    acc.violation('C14:conditional-%s:%s' % (label, bad[0]), bad[1], case)


FAULT_ANSWERS = [errno.ENOENT, errno.EACCES, errno.EIO, errno.EISDIR]
FAULT_REQS = [(['a.txt'], None), (['noext'], None), (['binnoext'], None), (['sub', 'c.txt'], None), (['only2.txt'], None),
              (['a.txt'], 'before'), (['a.txt'], 'exact'), (['noext'], 'after'), (['missing.txt'], None), (['fbonly.txt'], None),
              (['sub', 'deep', 'd.txt'], 'before')]


def run_faults(acc, tree, cfg, ndev, i, n, counter):
    import clastic.static as st
    prefix, mode, two = cfg
    w = World(tree, prefix, mode, two)
    seams = Seams(st)
    seams.install()
    try:
        for segs, ims in FAULT_REQS:
            hdrs = {}
            if ims:
                hdrs['If-Modified-Since'] = {'before': http_date(MTIME - 100), 'exact': http_date(MTIME),
                                             'after': http_date(MTIME + 100)}[ims]
            seams.reset()
            base = wsgi.call(w.app, w.path_for(segs), 'GET', headers=hdrs)
            calls = list(seams.calls)
            positions = range(len(calls))
            combos = [(p,) for p in positions]
            if ndev >= 2:
                combos += list(itertools.combinations(positions, 2))
            for combo in combos:
                answer_sets = []
                for p in combo:
                    # os.path.isfile never raises: its only alternative answer is False (file vanished)
                    answer_sets.append(['false'] if calls[p] == 'isfile' else FAULT_ANSWERS)
                for answers in itertools.product(*answer_sets):
                    counter[0] += 1
                    if counter[0] % n != i:
                        continue
                    faults = dict(zip(combo, answers))
                    seams.reset(faults)
                    res = wsgi.call(w.app, w.path_for(segs), 'GET', headers=hdrs)
                    acc.evaluated += 1
                    acc.transitions += 1
                    acc.validated += 1
                    acc.add('nontrivial')
                    names = '+'.join('%s@%d' % (calls[p], p) for p in combo)
                    acc.outcome('fault|%s|%s' % ('+'.join(calls[p] for p in combo), res.code))
                    case = {'kind': 'fault', 'cfg': list(cfg), 'segs': segs, 'ims': ims,
                            'faults': [[p, a] for p, a in faults.items()]}
                    if res.code == 304 and ims in ('exact', 'after') and not res.body:
                        continue
                    bad = judge(w, segs, res, faulted=True)
                    if bad:
                        acc.violation('C14:fault-%s:%s%s' % (bad[0], '+'.join(calls[p] for p in combo), ':conditional' if ims else ''),
                                      '%s; request %r with fault(s) %s=%r (calls made: %r), config %r'
                                      % (bad[1], w.path_for(segs), names, answers, calls, cfg), case)
    finally:
        seams.reset()
        seams.uninstall()


def nshards(tier):
    return 32


def check_long_lived(acc, tree):
    """A long-lived process: a static application behind the bundled StatsMiddleware has served more files than the
    statistics keep samples for (2**14 per route and status).  The next downloads - under every position the
    sampling can draw, the random source is a scripted seam - still deliver the files."""
    import clastic.middleware.stats as st
    from clastic import Application, StaticApplication
    from clastic.middleware.stats import StatsMiddleware

    class Script(object):
        value = None

        def random(self):
            if self.value is None:
                return 0.0
            return self.value
    script = Script()
    orig = st.random
    st.random = script
    try:
        app = Application([('/s', StaticApplication([os.path.join(tree.base, 'root')]))], middlewares=[StatsMiddleware()])
        want = wsgi.call(app, '/s/a.txt', 'GET')
        n_fill = 2 ** 14 + 3
        for _ in range(n_fill):
            app(wsgi.make_environ('/s/a.txt'), lambda s, h, e=None: None)
        acc.transitions += n_fill
        total = n_fill + 1
        # every slot the next add may draw (0 .. total inclusive), in particular the ones at and next to the capacity
        for idx in (0, 1, 2 ** 14 - 1, 2 ** 14, 2 ** 14 + 1, total - 1, total, total + 1):
            script.value = min(0.999999999, (idx + 0.5) / float(total + 2))
            res = wsgi.call(app, '/s/a.txt', 'GET')
            total += 1
            acc.transitions += 1
            acc.validated += 1
            if res.raised is not None or res.code != 200 or res.body != want.body:
                acc.violation('C14:long-lived:%s' % (res.code,), 'after %d downloads through StatsMiddleware the next one (random '
                              'position %d) answered %s %r' % (total, idx, res.status, res.raised), {'kind': 'long-lived'})
                return
        acc.outcome('long-lived|ok')
    finally:
        st.random = orig


def shard(tier, i, n, seed):
    common.setup_repo()
    acc = common.Acc()
    tree = Tree()
    acc.outcome('tz|' + common.set_tz(i))
    if i == 3 % n:
        check_long_lived(acc, tree)
    try:
        counter = [0]
        for ci, cfg in enumerate(configs(tier)):
            run_paths(acc, tree, cfg, path_depth(tier, ci), i, n, counter)
            if acc.extra.get('cap_hit'):
                return acc
        for ci, cfg in enumerate(configs(tier)):
            if ci % n == i:
                run_conditional(acc, tree, cfg)
        fcounter = [0]
        for ci, cfg in enumerate(configs(tier)):
            if tier == 'quick' and cfg[1] == 'rewrite':
                continue
            run_faults(acc, tree, cfg, 1 if tier == 'quick' else 2, i, n, fcounter)
    finally:
        tree.cleanup()
    return acc


def finish(tier, merged, results):
    oc = merged['outcomes']
    if not merged['violations']:
        for need in ('path|plain|200', 'path|dotdot|403', 'conditional|exact|304', 'fault|isfile', 'fault|open',
                     'fault|getmtime', 'fault|getsize', 'fault|read'):
            if not any(k.startswith(need) for k in oc):
                raise common.InternalError('vacuous: no outcome %s (a filesystem seam is not being reached)' % need)
    return {'bounds': {'configs': len(configs(tier)), 'segment_alphabet': 15, 'path_depth': '3 (4 for three configurations)' if tier == 'quick' else '4 (5 for three configurations)',
                       'fault_requests': len(FAULT_REQS), 'fault_answers': ['ENOENT', 'EACCES', 'EIO', 'EISDIR', 'isfile->False'],
                       'deviations': 1 if tier == 'quick' else 2},
            'distinct_nontrivial': merged['extra'].get('nontrivial', 0)}


def replay(case):
    # the shards rotate through the time zones of mc/common.py: a replay fails if it fails under any of them
    for k in range(len(common.TZS)):
        common.set_tz(k)
        ok, text = _replay(case)
        if not ok:
            return ok, '%s (TZ=%s)' % (text, common.TZS[k])
    return ok, text


def _replay(case):
    common.setup_repo()
    tree = Tree()
    if case.get('kind') == 'long-lived':
        try:
            acc = common.Acc()
            check_long_lived(acc, tree)
            return (False, acc.violations[0]['desc']) if acc.violations else (True, 'ok')
        finally:
            tree.cleanup()
    try:
        cfg = tuple(case['cfg'])
        w = World(tree, *cfg)
        if case['kind'] == 'path':
            if case.get('dev_server'):
                res = wsgi.call(w.app, None, environ=wsgi.dev_server_environ(w.path_for(case['segs']), 'GET'))
            else:
                res = wsgi.call(w.app, w.path_for(case['segs']), 'GET')
            bad = judge(w, case['segs'], res)
            return (bad is None), (bad[1] if bad else 'ok')
        if case['kind'] == 'conditional':
            acc = common.Acc()
            run_conditional(acc, tree, cfg)
            return (not acc.violations), (acc.violations[0]['desc'] if acc.violations else 'ok')
        import clastic.static as st
        seams = Seams(st)
        seams.install()
        try:
            hdrs = {}
            if case.get('ims'):
                hdrs['If-Modified-Since'] = {'before': http_date(MTIME - 100), 'exact': http_date(MTIME),
                                             'after': http_date(MTIME + 100)}[case['ims']]
            seams.reset(dict((int(p), a) for p, a in case['faults']))
            res = wsgi.call(w.app, w.path_for(case['segs']), 'GET', headers=hdrs)
            bad = judge(w, case['segs'], res, faulted=True)
            return (bad is None), (bad[1] if bad else 'ok (%s)' % res.status)
        finally:
            seams.reset()
            seams.uninstall()
    finally:
        tree.cleanup()
