# -*- coding: utf-8 -*-
"""C05 - URL patterns match exactly the paths their mini-language describes.

Bounded-exhaustive exploration of (pattern, slash mode, path) triples on the
real `Route` / `BoundRoute.match_path` / WSGI dispatch, with the verdict for
each triple given by ref/match.py.
"""
import itertools
import urllib.parse
import os
import time

from mc import common, wsgi
from ref import match as R

ID = 'C05'
LEVEL = 'model_checking'
BUDGET = {'quick': 600, 'thorough': 2400}
RULE = ('every (pattern, mode, path) triple inside the bound is enumerated (mixed-radix product, sharded by pattern '
        'index); a triple is non-trivial when the reference says the route must match or when the path shares at '
        'least its first segment with the pattern; distinct = distinct (verdict class, mode, pattern shape) outcomes')
ASSUMPTIONS = [
    'ref/match.py is the trusted reading of the mini-language (three-valued literal validity)',
    'paths are strings that start with "/" (WSGI guarantees this for request.path)',
    'literal segments are drawn from [A-Za-z0-9_-] (observation O1)',
]

MODES = (R.STRICT, R.REDIRECT, R.REWRITE)
ALPHABET = ['/', 'a', 'b', '1', '0', '.', '-', '+', ' ', 'e', u'\xe9']

# ---- element kinds -------------------------------------------------------
P1_KINDS = [('lit', 'a'), ('lit', 'b-1')]
P1_KINDS += [('bind', None, op, '') for op in ('', ':', '?', '*', '+')]
P1_KINDS += [('bind', None, op, t) for op in (':', '?', '*', '+') for t in ('str', 'unicode', 'int', 'float')]

P2_KINDS = [('lit', 'a')] + [('bind', None, op, t) for op in (':', '?', '*', '+') for t in ('str', 'int')]
P2_SEGS = ['a', 'b-1', '1', '+ 2', '1.5', u'\xe9', '0', 'a\n', '1\n', '..', '+5']

INVALID_EXTRA = ['a', 'a/b', '', '//', '/a//b', '/a//', '//a', '/<x>/<x>', '/<x>/a/<x+int>', '/<x:foo>', '/<x?bar>',
                 '/<x!>', '/<x?:int>', '/<x**>', '/<x+?>', '/<x~int>', '/<x:int>//', '/a/<x^>', '/<x:INT>', '/<x:Int>',
                 '/<x:string>', '/<x=int>', '/<x?*>', '/<x:integer>/', '<x>', 'a/<x>', '/<x>/<y>/<x>']


def deadline_passed():
    d = os.environ.get('VERIF_DEADLINE')
    return bool(d) and time.time() > float(d)


def name_elems(kinds):
    out = []
    for i, k in enumerate(kinds):
        if k[0] == 'lit':
            out.append(k)
        else:
            out.append(('bind', 'n%d' % i, k[2], k[3]))
    return out


def ref_elems(elems):
    """Elements as the reference understands them (empty type = unicode)."""
    return [e if e[0] == 'lit' else ('bind', e[1], e[2], e[3] or 'unicode') for e in elems]


def patterns(kinds, maxlen):
    """All (elems, branch) of at most maxlen elements."""
    for n in range(0, maxlen + 1):
        for ks in itertools.product(kinds, repeat=n):
            elems = name_elems(ks)
            if not elems:
                yield elems, True
            else:
                yield elems, False
                yield elems, True


def char_paths(L):
    """'/' followed by every string of length < L over ALPHABET."""
    out = []
    for n in range(0, L):
        for cs in itertools.product(ALPHABET, repeat=n):
            out.append('/' + ''.join(cs))
    return out


def seg_paths(maxsegs):
    out = []
    seen = set()
    for n in range(0, maxsegs + 1):
        for segs in itertools.product(P2_SEGS, repeat=n):
            shapes = ['/' + '/'.join(segs)]
            if segs:
                base = '/' + '/'.join(segs)
                shapes += [base + '/', '/' + base, base + '//', '//' + '/'.join(segs) + '/']
                if len(segs) >= 2:
                    shapes.append('/' + '//'.join(segs))
                    shapes.append('/' + '/'.join(segs[:-1]) + '//' + segs[-1] + '/')
                    shapes.append('/' + segs[0] + '///' + '/'.join(segs[1:]))
            else:
                shapes += ['//', '///']
            for p in shapes:
                if p not in seen:
                    seen.add(p)
                    out.append(p)
    return out


def layers(tier):
    """(name, kinds, max elements, path list factory) in evaluation order."""
    if tier == 'quick':
        return [('P1-1', P1_KINDS, 1, 1, lambda: char_paths(6)),
                ('P1-2', P1_KINDS, 2, 2, lambda: char_paths(4)),
                ('P2', P2_KINDS, 0, 3, lambda: seg_paths(3))]
    return [('P1-1', P1_KINDS, 1, 1, lambda: char_paths(7)),
            ('P1-2', P1_KINDS, 2, 2, lambda: char_paths(5)),
            ('P2', P2_KINDS, 0, 3, lambda: seg_paths(4)),
            ('P2-4', P2_KINDS, 4, 4, lambda: seg_paths(3))]


def layer_patterns(kinds, lo, hi):
    return [(e, b) for (e, b) in patterns(kinds, hi) if len(e) >= lo]


def _build(clastic, ptext, mode):
    from clastic import Application, Route
    # the mode strings are equal to, but not the same objects as, clastic's constants
    rt = Route(ptext, _noop, slash_mode=common.fresh_str(mode))
    app = Application([rt], slash_mode=common.fresh_str(mode))
    return app.routes[0]


def _noop():
    return None


def features(elems, path, mode):
    f = []
    if path == '/':
        f.append('root')
    if '//' in path:
        f.append('dslash')
    for s in path.split('/'):
        if len(s) >= 2 and s[0] in '+-' and s[1] == ' ':
            f.append('signspace')
            break
    if any(e[0] == 'bind' and e[2] in '*+' and e[2] for e in elems):
        f.append('multi')
    if elems and all(e[0] == 'bind' and e[2] in ('?', '*') for e in elems):
        f.append('alloptional')
    return '+'.join(f) or 'plain'


def _typed_multi(elems):
    return any(e[0] == 'bind' and e[2] in ('*', '+') and e[3] in ('int', 'float') for e in elems)


def _collapse(path):
    out = []
    for c in path:
        if c == '/' and out and out[-1] == '/':
            continue
        out.append(c)
    return ''.join(out)


def _strip_empty(d):
    return dict((k, [x for x in v if x != ''] if isinstance(v, list) else v) for k, v in d.items())


def diagnose(cls, elems, mode, path, got, may, matcher):
    """Failure signature.  Two narrowly recognised classes (observation O4) get their own
    signature; everything else is described by generic features of the element."""
    if mode != R.STRICT and '//' in path:
        if cls == 'wrongval' and isinstance(got, dict) and \
                any(isinstance(v, list) and '' in v for v in got.values()):
            st = _strip_empty(got)
            if any(R.same_dict(m, st) for m in may):
                return 'emptyseg-in-multi'
        if cls == 'miss' and _typed_multi(elems):
            alt = matcher(_collapse(path))
            if alt is not None and any(R.same_dict(m, alt) for m in may):
                return 'dslash-typed-multi'
    return features(elems, path, mode)


def check_pair(acc, broute, elems, relems, branch, mode, path, cache, layer):
    key = (path if mode == R.STRICT else None)
    segs = R.split_path(path, mode, branch)
    if segs is None:
        must, may = False, []
    else:
        k = tuple(segs)
        hit = cache.get(k)
        if hit is None:
            may = []
            R._assign(relems, segs, 0, 0, R.MAYBE, may, 64)
            if may:
                sure = []
                R._assign(relems, segs, 0, 0, R.YES, sure, 1)
                must = bool(sure)
            else:
                must = False
            cache[k] = (must, may)
        else:
            must, may = hit
    try:
        got = broute.match_path(path)
    except Exception as e:  # match_path must never raise
        acc.violation('C05:raised:%s:%s' % (mode, type(e).__name__),
                      'match_path raised %r' % (e,),
                      {'kind': 'match', 'pattern': R.pattern_text(elems, branch), 'mode': mode, 'path': path})
        return
    acc.transitions += 1
    acc.validated += 1
    if got is not None:
        # the values belong to this one request: whatever it does to a list it was given must not be seen by a later
        # match (the comparison below works on a copy taken before)
        mine = got
        got = dict((k, list(v) if isinstance(v, list) else v) for k, v in mine.items())
        for v in mine.values():
            if isinstance(v, list):
                v.append('~left-by-an-earlier-request')
    if got is None:
        if must:
            acc.violation('C05:miss:%s:%s' % (mode, diagnose('miss', elems, mode, path, None, may, broute.match_path)),
                          'pattern %r (%s) must match %r (e.g. %r) but match_path returned None'
                          % (R.pattern_text(elems, branch), mode, path, may[0]),
                          {'kind': 'match', 'pattern': R.pattern_text(elems, branch), 'mode': mode, 'path': path})
        return 0
    if not may:
        acc.violation('C05:extra:%s:%s' % (mode, features(elems, path, mode)),
                      'pattern %r (%s) must not match %r but match_path returned %r'
                      % (R.pattern_text(elems, branch), mode, path, got),
                      {'kind': 'match', 'pattern': R.pattern_text(elems, branch), 'mode': mode, 'path': path})
        return 1
    for m in may:
        if R.same_dict(m, got):
            return 1
    acc.violation('C05:wrongval:%s:%s' % (mode, diagnose('wrongval', elems, mode, path, got, may, None)),
                  'pattern %r (%s) on %r returned %r, admissible results are %r'
                  % (R.pattern_text(elems, branch), mode, path, got, may[:3]),
                  {'kind': 'match', 'pattern': R.pattern_text(elems, branch), 'mode': mode, 'path': path})
    return 1


def run_match_layer(acc, clastic, name, pats, paths, shard, nshards):
    for pi, (elems, branch) in enumerate(pats):
        if pi % nshards != shard:
            continue
        if deadline_passed():
            acc.extra['cap_hit'] = 1
            return
        ptext = R.pattern_text(elems, branch)
        relems = ref_elems(elems)
        # the reference's own parser must agree with the generator (self-check of the trusted base)
        pe, pb = R.parse_pattern(ptext)
        if pe != relems or pb != branch:
            raise common.InternalError('reference parser disagrees with generator on %r: %r' % (ptext, pe))
        for mode in MODES:
            try:
                br = _build(clastic, ptext, mode)
            except Exception as e:
                acc.violation('C05:valid-rejected:%s' % type(e).__name__,
                              'valid pattern %r (%s) rejected: %r' % (ptext, mode, e),
                              {'kind': 'construct', 'pattern': ptext, 'mode': mode})
                continue
            cache = {}
            nmatch = 0
            for path in paths:
                r = check_pair(acc, br, elems, relems, branch, mode, path, cache, name)
                if r:
                    nmatch += 1
            acc.evaluated += len(paths)
            acc.outcome('%s:%s:matches>0' % (name, mode) if nmatch else '%s:%s:matches=0' % (name, mode))
            acc.add('matched_pairs', nmatch)
            if pi % 97 == 0:
                acc.sample({'layer': name, 'pattern': ptext, 'mode': mode, 'paths': len(paths), 'matched': nmatch,
                            'example_path': paths[min(len(paths) - 1, 7)]})


# ---- invalid patterns ------------------------------------------------------

def invalid_patterns():
    """Malformed variants derived from the valid grammar plus a fixed list."""
    out = list(INVALID_EXTRA)
    for elems, branch in patterns(P1_KINDS, 2):
        t = R.pattern_text(elems, branch)
        if t != '/':
            out.append(t[1:])                 # no leading slash
        out.append('/' + t)                   # leading double slash ('//' + ...)
        if len(elems) == 2:
            a, b = elems
            if a[0] == 'bind' and b[0] == 'bind':
                dup = [a, ('bind', a[1], b[2], b[3])]
                out.append(R.pattern_text(dup, branch))   # duplicate binding
        for i, e in enumerate(elems):
            if e[0] == 'bind':
                bad_t = list(elems)
                bad_t[i] = ('bind', e[1], e[2] or ':', 'bogus')
                out.append(R.pattern_text(bad_t, branch))  # unknown type
                bad_o = list(elems)
                bad_o[i] = ('bind', e[1], '!', e[3])
                out.append(R.pattern_text(bad_o, branch))  # unknown operator
                bad_o2 = list(elems)
                bad_o2[i] = ('bind', e[1], (e[2] or '') + '?*', e[3])
                out.append(R.pattern_text(bad_o2, branch))
    seen = set()
    res = []
    for p in out:
        if p not in seen:
            seen.add(p)
            res.append(p)
    return res


def run_invalid(acc, clastic, shard, nshards):
    from clastic import Route
    from clastic.route import InvalidPattern
    pats = invalid_patterns()
    for i, p in enumerate(pats):
        if i % nshards != shard:
            continue
        try:
            R.parse_pattern(p)
            raise common.InternalError('generator produced a pattern the reference accepts: %r' % p)
        except R.PatternError as pe:
            why = str(pe).split(' ')[0]
        for mode in MODES:
            acc.evaluated += 1
            acc.transitions += 1
            acc.validated += 1
            try:
                Route(p, _noop, slash_mode=mode)
            except InvalidPattern:
                acc.outcome('invalid:rejected')
                continue
            except Exception as e:
                acc.violation('C05:invalid-wrong-exception:%s:%s' % (why, type(e).__name__),
                              'malformed pattern %r raised %r instead of InvalidPattern' % (p, e),
                              {'kind': 'invalid', 'pattern': p, 'mode': mode})
                continue
            acc.violation('C05:invalid-accepted:%s' % why,
                          'malformed pattern %r (%s) accepted by Route()' % (p, why),
                          {'kind': 'invalid', 'pattern': p, 'mode': mode})
        # every other documented way of writing a route down refuses the pattern just the same
        for via in INVALID_VIAS:
            acc.evaluated += 1
            acc.transitions += 1
            acc.validated += 1
            case = {'kind': 'invalid-via', 'pattern': p, 'via': via}
            try:
                _construct_via(via, p)
            except InvalidPattern:
                acc.outcome('invalid:rejected')
                continue
            except Exception as e:
                acc.violation('C05:invalid-wrong-exception:%s:%s:%s' % (why, type(e).__name__, via),
                              'malformed pattern %r written as %s raised %r instead of InvalidPattern' % (p, via, e), case)
                continue
            acc.violation('C05:invalid-accepted:%s:%s' % (why, via), 'malformed pattern %r (%s) accepted when written as %s'
                          % (p, why, via), case)


PROVIDE_PATTERNS = [('/items/<page:int>', '/items/7', 7), ('/t/<page*>', '/t/a/b', ['a', 'b']), ('/t/<page*>', '/t', []),
                    ('/o/<page?int>/x', '/o/x', None), ('/s/<page>', '/s/v', 'v'), ('/f/<page+float>', '/f/1.5/2', [1.5, 2.0])]


def run_provides(acc):
    """What a handler receives for a binding is the converted path segment - also when a middleware in front of it
    provides a value under the binding's name (in any of its three phases): such a stack is refused when it is
    constructed (README, 'Naming conflicts'); if it were accepted the path would still have to win."""
    from clastic import Application, Middleware, Route
    from werkzeug.wrappers import Response
    got = []

    def handler(page):
        got.append(page)
        return Response('ok')
    for pattern, path, want in PROVIDE_PATTERNS:
        for phase in ('request', 'endpoint', 'render', 'none'):
            for level in ('app', 'route'):
                acc.evaluated += 1
                acc.transitions += 1
                acc.validated += 1
                case = {'kind': 'provides', 'pattern': pattern, 'phase': phase, 'level': level}
                ns = {'Middleware': Middleware}
                if phase == 'none':
                    mws = []
                else:
                    exec('class P(Middleware):\n    %s = ("page",)\n    def %s(self, next%s):\n        return next(page="FROM-MIDDLEWARE")\n'
                         % ({'request': 'provides', 'endpoint': 'endpoint_provides', 'render': 'render_provides'}[phase], phase,
                            ', context' if phase == 'render' else ''), ns)
                    mws = [ns['P']()]
                try:
                    app = Application([Route(pattern, handler, middlewares=mws if level == 'route' else [])],
                                      middlewares=mws if level == 'app' else [])
                except NameError:
                    acc.outcome('provides:refused')
                    if phase == 'none':
                        acc.violation('C05:provides:plain-route-refused', 'route %r without any middleware refused' % pattern, case)
                    continue
                except Exception as e:
                    acc.violation('C05:provides:construct-%s' % type(e).__name__, 'route %r behind a middleware providing its binding in the %s '
                                  'phase: construction raised %r' % (pattern, phase, e), case)
                    continue
                del got[:]
                st = []
                b''.join(app(_environ(path), lambda s, h, e=None: st.append(s)))
                acc.outcome('provides:accepted')
                if phase == 'render':
                    continue      # a render-phase value never reaches the handler
                if not st or st[0][:3] != '200' or got != [want] or (got and type(got[0]) is not type(want)):
                    acc.violation('C05:provides:handler-value:%s' % phase, 'route %r behind a middleware whose %s phase provides `page`: the '
                                  'stack was accepted and the handler received %r for %r, the path says %r' % (pattern, phase, got, path, want), case)


INVALID_VIAS = ('cline-decorator', 'cline-get', 'tuple', 'add-tuple', 'GET', 'POST-add')


def _construct_via(via, p):
    from clastic import Application, GET, POST
    from clastic.cline import Cline
    if via == 'cline-decorator':
        Cline().route(p)(_noop)
    elif via == 'cline-get':
        Cline().get(p)(_noop)
    elif via == 'tuple':
        Application([(p, _noop)])
    elif via == 'add-tuple':
        Application().add((p, _noop))
    elif via == 'GET':
        GET(p, _noop)
    elif via == 'POST-add':
        Application().add(POST(p, _noop))


# ---- end to end through the WSGI callable ---------------------------------

def _mk_endpoint(names):
    src = 'def ep(%s):\n    SEEN.append(dict(%s))\n    return RESP("ok")\n' % (
        ', '.join(names), ', '.join('%s=%s' % (n, n) for n in names))
    from werkzeug.wrappers import Response
    ns = {'SEEN': [], 'RESP': Response}
    exec(src, ns)
    return ns['ep'], ns['SEEN']


def _environ(path, method='GET'):
    from werkzeug.test import EnvironBuilder
    env = EnvironBuilder(path='/', method=method).get_environ()
    env['PATH_INFO'] = path.encode('utf-8').decode('latin-1')
    return env


def run_e2e(acc, clastic, shard, nshards, maxel, maxsegs):
    from clastic import Application, Route
    pats = layer_patterns(P2_KINDS, 0, maxel)
    paths = seg_paths(maxsegs)
    for pi, (elems, branch) in enumerate(pats):
        if pi % nshards != shard:
            continue
        if deadline_passed():
            acc.extra['cap_hit'] = 1
            return
        ptext = R.pattern_text(elems, branch)
        relems = ref_elems(elems)
        names = [e[1] for e in elems if e[0] == 'bind']
        for mode, placement in ((R.STRICT, 'app'), (R.REWRITE, 'app'), (R.STRICT, 'route'), (R.REWRITE, 'route'),
                                (R.STRICT, 'embed-own'), (R.REWRITE, 'embed-own'), (R.REDIRECT, 'mounted')):
            ep, seen = _mk_endpoint(names)
            if placement in ('app', 'mounted'):
                app = Application([Route(ptext, ep)], slash_mode=common.fresh_str(mode))
            elif placement == 'embed-own':
                # the mode is that of an embedded application which keeps its own slashes
                from clastic import SubApplication
                inner = Application([Route(ptext, ep)], slash_mode=common.fresh_str(mode))
                app = Application([SubApplication('/', inner, inherit_slashes=False)], slash_mode=common.fresh_str(R.REDIRECT))
            else:
                # the mode is the route's own: the application around it is in redirect mode
                app = Application([], slash_mode=common.fresh_str(R.REDIRECT))
                app.add(Route(ptext, ep, slash_mode=common.fresh_str(mode)), inherit_slashes=False)
            for path in paths:
                # werkzeug collapses leading slashes before clastic sees the path
                eff = '/' + path.lstrip('/')
                must, may = R.ref_match(relems, branch, mode, eff)
                del seen[:]
                status = []
                acc.evaluated += 1
                acc.transitions += 1
                acc.validated += 1
                case = {'kind': 'e2e', 'pattern': ptext, 'mode': mode, 'path': path, 'placement': placement}
                try:
                    # paths with a '+' also travel through the development server's own request parsing
                    env = wsgi.dev_server_environ(path, 'GET') if ('+' in path and not path.startswith('//') and placement != 'mounted') else _environ(path)
                    hdrs = []
                    if placement == 'mounted':
                        env['SCRIPT_NAME'] = '/mnt'
                    body = app(env, lambda s, h, e=None: (status.append(s), hdrs.append(h)))
                    try:
                        b''.join(body)
                    finally:
                        if hasattr(body, 'close'):
                            body.close()
                    if placement == 'mounted' and status and status[0][:3] in ('301', '302', '303', '307', '308'):
                        # redirect mode tolerates the slashes by sending the client to the clean URL - of this very
                        # application, wherever it is mounted; the client goes there
                        loc = dict((k.lower(), v) for k, v in hdrs[0]).get('location', '')
                        lp = urllib.parse.urlsplit(loc).path
                        if not lp.startswith('/mnt/') and lp != '/mnt':
                            acc.violation('C05:e2e-redirect-leaves-mount', '%r (redirect) mounted at /mnt: request %r is redirected to %r'
                                          % (ptext, path, loc), case)
                            continue
                        env = _environ(urllib.parse.unquote(lp[len('/mnt'):]) or '/')
                        env['SCRIPT_NAME'] = '/mnt'
                        del status[:]
                        acc.transitions += 1
                        body = app(env, lambda s, h, e=None: status.append(s))
                        try:
                            b''.join(body)
                        finally:
                            if hasattr(body, 'close'):
                                body.close()
                        if not status or status[0][:3] != '200':
                            acc.violation('C05:e2e-redirect-target', '%r (redirect): %r was redirected to %r, which answers %s'
                                          % (ptext, path, loc, status), case)
                            continue
                except Exception as e:
                    acc.violation('C05:e2e-raised:%s:%s' % (mode, type(e).__name__),
                                  '%r (%s) request %r made the application raise %r' % (ptext, mode, path, e), case)
                    continue
                code = status[0][:3] if status else 'none'
                if code == '200':
                    acc.outcome('e2e:200')
                    if not may:
                        acc.violation('C05:e2e-extra:%s:%s' % (mode, features(elems, eff, mode)),
                                      '%r (%s) answered 200 for %r, must be 404' % (ptext, mode, path), case)
                    elif len(seen) != 1 or not any(R.same_dict(m, seen[0]) for m in may):
                        acc.violation('C05:e2e-wrongval:%s:%s' % (mode, diagnose('wrongval', elems, mode, eff, seen[0] if len(seen) == 1 else None, may, None)),
                                      '%r (%s) endpoint received %r for %r, admissible %r'
                                      % (ptext, mode, seen, path, may[:3]), case)
                elif code == '404':
                    acc.outcome('e2e:404')
                    if must:
                        acc.violation('C05:e2e-miss:%s:%s' % (mode, diagnose('miss', elems, mode, eff, None, may, app.routes[0].match_path)),
                                      '%r (%s) answered 404 for %r, must match (%r)' % (ptext, mode, path, may[0]), case)
                else:
                    acc.violation('C05:e2e-status:%s:%s' % (mode, code),
                                  '%r (%s) answered %s for %r' % (ptext, mode, status, path), case)


def nshards(tier):
    return 32 if tier == 'quick' else 64


def shard(tier, i, n, seed):
    clastic = common.setup_repo()
    acc = common.Acc()
    for name, kinds, lo, hi, mkpaths in layers(tier):
        pats = layer_patterns(kinds, lo, hi)
        paths = mkpaths()
        run_match_layer(acc, clastic, name, pats, paths, i, n)
    run_invalid(acc, clastic, i, n)
    if i == 3 % n:
        run_provides(acc)
    run_e2e(acc, clastic, i, n, 2, 2 if tier == 'quick' else 3)
    return acc


def space_size(tier):
    total = 0
    for name, kinds, lo, hi, mkpaths in layers(tier):
        total += len(layer_patterns(kinds, lo, hi)) * len(MODES) * len(mkpaths())
    total += len(invalid_patterns()) * (len(MODES) + len(INVALID_VIAS))
    total += len(PROVIDE_PATTERNS) * 4 * 2
    total += len(layer_patterns(P2_KINDS, 0, 2)) * 7 * len(seg_paths(2 if tier == 'quick' else 3))
    return total


def finish(tier, merged, results):
    oc = merged['outcomes']
    need = ['e2e:200', 'e2e:404', 'invalid:rejected']
    if not merged['violations']:
        for k in need:
            if not oc.get(k):
                raise common.InternalError('vacuous exploration: outcome %s never observed' % k)
    if merged['extra'].get('matched_pairs', 0) < 1000:
        raise common.InternalError('vacuous exploration: almost nothing matched')
    b = {}
    for name, kinds, lo, hi, mkpaths in layers(tier):
        b[name] = {'patterns': len(layer_patterns(kinds, lo, hi)), 'modes': 3, 'paths': len(mkpaths()),
                   'elements_per_pattern': [lo, hi]}
    b['invalid_patterns'] = len(invalid_patterns())
    return {'space_size': space_size(tier), 'bounds': b,
            'distinct_nontrivial': merged['extra'].get('matched_pairs', 0),
            'coverage': {'matched_pairs': merged['extra'].get('matched_pairs', 0),
                         'note': 'distinct_nontrivial counts (pattern, mode, path) triples on which the route matched '
                                 '(all triples are distinct by construction)'}}


def replay(case):
    clastic = common.setup_repo()
    from clastic import Route
    from clastic.route import InvalidPattern
    acc = common.Acc()
    if case['kind'] == 'match':
        elems, branch = R.parse_pattern(case['pattern'])
        br = _build(clastic, case['pattern'], case['mode'])
        check_pair(acc, br, elems, elems, branch, case['mode'], case['path'], {}, 'replay')
    elif case['kind'] == 'construct':
        try:
            _build(clastic, case['pattern'], case['mode'])
        except Exception as e:
            acc.violation('x', repr(e), case)
    elif case['kind'] == 'invalid-via':
        try:
            _construct_via(case['via'], case['pattern'])
            acc.violation('x', 'accepted', case)
        except InvalidPattern:
            pass
        except Exception as e:
            acc.violation('x', repr(e), case)
    elif case['kind'] == 'provides':
        run_provides(acc)
        acc.violations[:] = [v for v in acc.violations if v['case'] == case]
    elif case['kind'] == 'invalid':
        try:
            Route(case['pattern'], _noop, slash_mode=case['mode'])
            acc.violation('x', 'accepted', case)
        except InvalidPattern:
            pass
        except Exception as e:
            acc.violation('x', repr(e), case)
    elif case['kind'] == 'e2e':
        from clastic import Application
        elems, branch = R.parse_pattern(case['pattern'])
        names = [e[1] for e in elems if e[0] == 'bind']
        ep, seen = _mk_endpoint(names)
        if case.get('placement') == 'embed-own':
            from clastic import SubApplication
            inner = Application([Route(case['pattern'], ep)], slash_mode=case['mode'])
            app = Application([SubApplication('/', inner, inherit_slashes=False)], slash_mode=R.REDIRECT)
        elif case.get('placement') == 'route':
            app = Application([], slash_mode=R.REDIRECT)
            app.add(Route(case['pattern'], ep, slash_mode=case['mode']), inherit_slashes=False)
        else:
            app = Application([Route(case['pattern'], ep)], slash_mode=case['mode'])
        st = []
        b''.join(app(_environ(case['path']), lambda s, h, e=None: st.append(s)))
        eff = '/' + case['path'].lstrip('/')
        must, may = R.ref_match(elems, branch, case['mode'], eff)
        ok = (st[0][:3] == '200' and may and any(R.same_dict(m, seen[0]) for m in may)) or \
             (st[0][:3] == '404' and not must)
        if not ok:
            acc.violation('x', 'status %s seen %r expected must=%s may=%r' % (st, seen, must, may[:3]), case)
    if acc.violations:
        return False, acc.violations[0]['desc']
    return True, 'ok'
