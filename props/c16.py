# -*- coding: utf-8 -*-
"""C16 - signed cookies: only intact, unexpired, server-signed data is ever presented.

Explicit-state breadth-first search over histories of client operations
(set / delete / read / clear), clock advances around the expiry and tampering
steps on the cookie a client holds, for one or two clients, against a real
application with SignedCookieMiddleware.  The server is stateless, so a
state is (cookie held by each client, whether it is the string the server
issued, virtual clock, model dict per client).  In every transition the
cookie object the endpoint saw is compared with the model (untampered
cookies) or with the semantic verdict of ref/cookie.py (tampered cookies),
and the status must be the endpoint's normal status.
"""
import json
import os
import time

from mc import common, wsgi
from ref import cookie as RC

ID = 'C16'
LEVEL = 'model_checking'
BUDGET = {'quick': 300, 'thorough': 2400}
RULE = ('BFS over histories of {set, delete, read, clear} x values, clock advances {at expiry, past expiry} and 17 '
        'tampering steps, for 12 middleware configurations (expiry session/never/numeric x default/custom names x '
        'explicit/default secret); one evaluation = one state; non-trivial = state in which a client holds a tampered or '
        'expired cookie; distinct = distinct canonical states')
ASSUMPTIONS = ['ref/cookie.py decides validity of arbitrary cookie strings semantically (HMAC-SHA1 over the items)',
               'the server keeps no per-client state, so (cookies, clock, models) is the complete state',
               'the virtual clock replaces clastic.middleware.cookie.time and secure_cookie.cookie.time']

KEY = b'k1-secret'
UKEY = u'\u043f\u0430\u0440\u043e\u043b\u044c-k\xe9y'
VALUES = [1, 'x?>~', {'n': [1, u'\xe9']}, '', None]
T0 = 1000000.0
EXPIRY = 100


def deadline_passed():
    d = os.environ.get('VERIF_DEADLINE')
    return bool(d) and time.time() > float(d)


class Clock(object):
    def __init__(self):
        self.now = T0

    def time(self):
        return self.now

    def __call__(self):
        return self.now


_LEGAL = set("abcdefghijklmnopqrstuvwxyzABCDEFGHIJKLMNOPQRSTUVWXYZ0123456789!#$%&'*+-.^_`|~:")


def cookie_quote(v):
    """Quote a raw cookie value for a Cookie header the way user agents echo quoted-strings."""
    if all(c in _LEGAL for c in v):
        return v
    out = ['"']
    for c in v:
        if c in _LEGAL or c in ' ()/<=>?@[]{}':
            out.append(c)
        elif c == '"':
            out.append('\\"')
        elif c == '\\':
            out.append('\\\\')
        elif ord(c) < 128:
            out.append('\\%03o' % ord(c))
        else:
            out.extend('\\%03o' % b for b in c.encode('utf-8', 'surrogateescape'))
    out.append('"')
    return ''.join(out)


def cookie_unquote(v):
    if len(v) >= 2 and v[0] == '"' and v[-1] == '"':
        v = v[1:-1]
        out = []
        i = 0
        while i < len(v):
            c = v[i]
            if c == '\\' and i + 3 < len(v) + 0 and v[i + 1:i + 4].isdigit():
                out.append(chr(int(v[i + 1:i + 4], 8)))
                i += 4
            elif c == '\\' and i + 1 < len(v):
                out.append(v[i + 1])
                i += 2
            else:
                out.append(c)
                i += 1
        return ''.join(out)
    return v


class _DetOS(object):
    def __init__(self, real, label):
        self._real = real
        self._label = label
        self._n = 0

    def urandom(self, n):
        import hashlib
        self._n += 1
        out = b''
        k = 0
        while len(out) < n:
            out += hashlib.sha256(('%s|%d|%d' % (self._label, self._n, k)).encode('ascii')).digest()
            k += 1
        return out[:n]

    def __getattr__(self, name):
        return getattr(self._real, name)


class World(object):
    def __init__(self, expiry, custom_names, explicit_secret):
        import clastic.middleware.cookie as cm
        import secure_cookie.cookie as sc
        from clastic import Application
        from clastic.middleware.cookie import SignedCookieMiddleware, NEVER, SESSION
        from werkzeug.wrappers import Response
        self.cm, self.sc = cm, sc
        self.clock = Clock()
        self.expiry = expiry
        self.explicit = explicit_secret
        if expiry == 'numeric-deprecated':
            kw = {'data_expiry': EXPIRY}        # the deprecated spelling of expiry=
        else:
            # the constants as a configuration file would deliver them: equal values, not the module's own objects
            never = common.fresh_str(NEVER) if isinstance(NEVER, str) else NEVER
            session = float(SESSION) if (isinstance(SESSION, int) and explicit_secret is False) else SESSION
            kw = {'expiry': {'session': session, 'never': never, 'numeric': EXPIRY}[expiry]}
        if custom_names:
            kw.update(arg_name='sess', cookie_name='sid')
        if explicit_secret == 'unicode':
            kw['secret_key'] = UKEY          # a text secret with non-ASCII characters
        elif explicit_secret:
            kw['secret_key'] = KEY
        # the middleware's source of random secrets is a seam too: a deterministic stream (distinct per instance,
        # derived from VERIF_SEED), so that the explored state space is the same in every run
        real_os = cm.os
        cm.os = _DetOS(real_os, '%s|%s|%s|%s' % (common.seed(), expiry, custom_names, explicit_secret))
        try:
            self.mw = SignedCookieMiddleware(**kw)
            fkw = dict(kw)
            fkw.pop('secret_key', None)
            self.foreign_mw = SignedCookieMiddleware(**fkw)   # another instance constructed without a secret: its own
        finally:
            cm.os = real_os
        self.cookie_name = self.mw.cookie_name
        arg = self.mw.arg_name
        src = ('def ep(%s, request):\n'
               '    before = dict(%s)\n'
               '    op = request.args.get("op")\n'
               '    if op == "set":\n'
               '        %s[request.args["k"]] = JSON.loads(request.args["v"])\n'
               '    elif op == "delete":\n'
               '        %s.pop(request.args["k"], None)\n'
               '    elif op == "clear":\n'
               '        %s.clear()\n'
               '    elif op == "set403":\n'
               '        %s[request.args["k"]] = JSON.loads(request.args["v"])\n'
               '        return FORBIDDEN("after storing")\n'
               '    elif op == "logout":\n'
               '        %s.set_expires()\n'
               '    return RESP(JSON.dumps({"before": before, "after": dict(%s)}, sort_keys=True), status=201)\n'
               % ((arg,) * 8))
        from clastic.errors import Forbidden
        ns = {'JSON': json, 'RESP': Response, 'FORBIDDEN': Forbidden}
        exec(src, ns)
        # post/redirect/get: the same operations on a route whose render step is clastic's Redirector
        exec('def ep_go(%s, request):\n    ep(%s, request)\n    return {"done": 1}\n' % (arg, arg), ns)
        from clastic.utils import Redirector
        self.app = Application([('/', ns['ep']), ('/go', ns['ep_go'], Redirector('/', code=303))], middlewares=[self.mw])
        self.foreign_app = Application([('/', ns['ep'])], middlewares=[self.foreign_mw])
        # the reference's key is the *configured* secret (read from the middleware only when it made one up itself)
        if explicit_secret == 'unicode':
            self._key = UKEY.encode('utf-8')
        elif explicit_secret:
            self._key = KEY
        else:
            self._key = None          # the middleware made one up: read when first needed (it may do so lazily)

    @property
    def key(self):
        if self._key is not None:
            return self._key
        k = self.mw.secret_key
        if k is None:
            return b'<no secret yet>'
        return k if isinstance(k, bytes) else k.encode('utf-8')

    def install_clock(self):
        self._orig = (self.cm.time, self.sc.time)
        self.cm.time = self.clock
        self.sc.time = self.clock

    def restore_clock(self):
        self.cm.time, self.sc.time = self._orig

    def request(self, app, raw_cookie, op, k=None, v=None):
        import urllib.parse
        q = 'op=%s' % op
        if k is not None:
            q += '&k=' + urllib.parse.quote(k.encode('utf-8'))
        if v is not None:
            q += '&v=' + urllib.parse.quote(v.encode('utf-8'))
        hdrs = {}
        if raw_cookie is not None:
            hdrs['Cookie'] = ('%s=%s' % (self.cookie_name, raw_cookie)).encode('utf-8', 'surrogateescape').decode('latin-1')
        path = '/'
        if op.endswith('-r'):
            path, q = '/go', q.replace('op=%s' % op, 'op=%s' % op[:-2])
        res = wsgi.call(app, path, 'GET', query=q, headers=hdrs)
        new_cookie = None
        for sc in res.header_all('Set-Cookie') if res.headers else ():
            name, _, rest = sc.partition('=')
            if name == self.cookie_name:
                new_cookie = rest.split(';', 1)[0]
        return res, new_cookie


# state: tuple per client of (raw cookie or None, clean flag, model-json, issued_expiry or None), plus clock offset
def initial_state():
    return ((None, True, '{}', None), (None, True, '{}', None), 0)


CLIENT_OPS = {
    0: [('set', 'a', 0), ('set', 'a', 1), ('set', u'\xe9', 2), ('set', 'a', 3), ('set', 'b', 4), ('delete', 'a', None),
        ('read', None, None), ('clear', None, None), ('logout', None, None), ('set-r', 'b', 1), ('read-r', None, None),
        ('set403', 'b', 3)],      # stores, then answers with a *returned* 403: what was stored is saved all the same
    1: [('set', 'a', 0), ('set', u'\xe9', 2), ('read', None, None), ('read-r', None, None)],
}
TAMPERS = ['flip-mac', 'flip-mac-lowbits', 'flip-key', 'flip-payload', 'truncate', 'extend-item', 'extend-amp',
           'swap-mac', 'swap-payload', 'resign-other-key', 'foreign-instance', 'random-bytes', 'non-ascii', 'bad-b64-1',
           'bad-b64-2', 'bad-b64-3', 'no-question', 'no-equals', 'empty', 'quotes', 'nonascii-key',
           'resign-ascii-replace', 'resign-ascii-ignore', 'resign-latin1-replace']
ADVANCES = [EXPIRY, EXPIRY + 1]


def tamper(w, kind, mine, other):
    try:
        return _tamper(w, kind, mine, other)
    except (IndexError, ValueError):
        return None          # the held cookie is too mangled already for this step


def _tamper(w, kind, mine, other):
    """Returns the new *unquoted* cookie value (text) or None if not applicable."""
    val = cookie_unquote(mine) if mine else None
    oval = cookie_unquote(other) if other else None
    fixed = {'random-bytes': '\x01\x02\xfe\xff\x00garbage', 'non-ascii': u'\xe9中?\xe9=\xe9', 'bad-b64-1': 'A?a=b',
             'bad-b64-2': 'AB?a=MQ==', 'bad-b64-3': 'ABC?a=MQ==', 'no-question': 'abcdef', 'no-equals': 'AAAA?abc',
             'empty': '', 'quotes': '""'}
    if kind in fixed:
        return fixed[kind]
    if kind == 'resign-other-key':
        return RC.sign({'a': 'evil', 'admin': True}, b'some-other-key')
    if kind.startswith('resign-') :
        # keys an attacker can guess when a text secret is squeezed into a narrower charset somewhere
        if w.explicit != 'unicode':
            return None
        enc, _, how = kind[len('resign-'):].partition('-')
        k2 = UKEY.encode('latin-1' if enc == 'latin1' else 'ascii', how)
        if k2 == w.key:
            return None
        return RC.sign({'a': 'evil', 'admin': True}, k2)
    if kind == 'foreign-instance':
        res, c = w.request(w.foreign_app, None, 'set', 'a', json.dumps('foreign'))
        return cookie_unquote(c) if c else None
    if not val or '?' not in val:
        return None
    mac, rest = val.split('?', 1)

    def flip(s, i):
        c = s[i]
        alt = 'A' if c != 'A' else 'B'
        return s[:i] + alt + s[i + 1:]
    if kind == 'flip-mac':
        return flip(mac, 2) + '?' + rest
    if kind == 'flip-mac-lowbits':
        # the last base64 character before the padding carries unused low bits: changing only those
        # decodes to the same digest (a different string that is still validly signed)
        i = len(mac.rstrip('=')) - 1
        alph = 'ABCDEFGHIJKLMNOPQRSTUVWXYZabcdefghijklmnopqrstuvwxyz0123456789+/'
        j = alph.index(mac[i])
        return mac[:i] + alph[j ^ 1] + mac[i + 1:] + '?' + rest
    if kind == 'flip-key':
        return mac + '?' + flip(rest, 0)
    if kind == 'flip-payload':
        eq = rest.index('=')
        return mac + '?' + rest[:eq + 1] + flip(rest[eq + 1:], 1)
    if kind == 'truncate':
        return val[:-3]
    if kind == 'extend-item':
        return val + '&admin=dHJ1ZQ=='
    if kind == 'extend-amp':
        return val + '&'
    if kind == 'nonascii-key':
        return mac + u'?\xe9' + rest
    if kind in ('swap-mac', 'swap-payload'):
        if not oval or '?' not in oval:
            return None
        omac, orest = oval.split('?', 1)
        return (omac + '?' + rest) if kind == 'swap-mac' else (mac + '?' + orest)
    raise AssertionError(kind)


def successors(w, state):
    """Yields (op description, new_state, violation-or-None)."""
    c0, c1, off = state
    clients = [c0, c1]
    w.clock.now = T0 + off
    for ci in (0, 1):
        raw, clean, model_json, exp = clients[ci]
        for op, k, vi in CLIENT_OPS[ci]:
            w.clock.now = T0 + off
            vjson = json.dumps(VALUES[vi]) if vi is not None else None
            res, newc = w.request(w.app, raw, op, k, vjson)
            desc = ['client%d' % ci, op, k, vi]
            # what must the endpoint have been presented?
            if clean == 'foreign':
                # a cookie issued by another middleware instance that was constructed without an explicit
                # secret: its own random secret is not this server's secret, nothing of it may be presented
                model = {}
            elif clean:
                model = json.loads(model_json)
                if exp is not None and w.clock.now > exp:
                    model = {}
            else:
                model = RC.verify(cookie_unquote(raw) if raw is not None else '', w.key, w.clock.now)
            bad = None
            if res.raised is not None:
                bad = ('raised-%s' % type(res.raised).__name__, 'application raised %r' % (res.raised,))
            elif op.endswith('-r'):
                if res.code != 303:
                    bad = ('status-%s' % res.code, 'status %s instead of the redirect 303' % res.status)
            elif op == 'set403':
                if res.code != 403:
                    bad = ('status-%s' % res.code, 'status %s instead of the returned 403' % res.status)
            elif res.code != 201:
                bad = ('status-%s' % res.code, 'status %s instead of the endpoint\'s 201' % res.status)
            else:
                seen = json.loads(res.body.decode('utf-8'))
                if seen['before'] != json.loads(json.dumps(model)):
                    bad = ('presented', 'endpoint was presented %r, expected %r' % (seen['before'], model))
            after = dict(model)
            if op in ('set', 'set-r', 'set403'):
                after[k] = VALUES[vi]
            elif op == 'delete':
                after.pop(k, None)
            elif op == 'clear':
                after = {}
            if newc is not None:
                nexp = (w.clock.now + EXPIRY) if w.expiry.startswith('numeric') else None
                if op == 'logout':
                    nexp = 123456          # set_expires(): a moment long past
                nc = (newc, True, json.dumps(after, sort_keys=True), nexp)
            else:
                # no Set-Cookie: the client keeps what it has; the stored data must then be unchanged
                if bad is None and json.loads(json.dumps(after)) != json.loads(json.dumps(model)):
                    bad = ('not-saved', 'the endpoint changed the cookie to %r but no cookie was issued' % (after,))
                nc = clients[ci] if clean else (raw, False, '{}', None)
                if clean is True and exp is not None and w.clock.now > exp:
                    nc = (raw, True, '{}', exp)
            ns = list(clients)
            ns[ci] = nc
            yield desc, (ns[0], ns[1], off), bad
    # tampering with the cookie client 0 holds
    raw0, raw1 = clients[0][0], clients[1][0]
    for kind in TAMPERS:
        w.clock.now = T0 + off
        t = tamper(w, kind, raw0, raw1)
        if t is None:
            continue
        q = cookie_quote(t)
        if q == raw0:
            continue
        flag = 'foreign' if (kind == 'foreign-instance' and not w.explicit) else False
        yield ['client0', 'tamper', kind], ((q, flag, '{}', None), clients[1], off), None
    if w.expiry.startswith('numeric'):
        for adv in ADVANCES:
            if off + adv <= 3 * (EXPIRY + 1):
                yield ['clock', 'advance', adv], (c0, c1, off + adv), None


def explore(acc, cfg, depth, shard_i, nshards):
    expiry, custom, explicit = cfg
    w = World(expiry, custom, explicit)
    w.install_clock()
    label = '%s/%s/%s' % (expiry, 'custom' if custom else 'default', 'explicit' if explicit else 'random-secret')
    try:
        start = initial_state()
        seen = {start}
        frontier = [(start, [])]
        d = 0
        while frontier and d < depth:
            nxt = []
            for si, (state, hist) in enumerate(frontier):
                if d == 1 and si % nshards != shard_i:
                    continue
                if si % 100 == 0 and deadline_passed():
                    acc.extra['cap_hit'] = 1
                    return
                for desc, ns, bad in successors(w, state):
                    acc.transitions += 1
                    acc.validated += 1
                    if bad:
                        tam = [h[2] for h in hist if h[1] == 'tamper']
                        acc.violation('C16:%s:%s:%s' % (bad[0], tam[-1] if tam and not state[0][1] else 'untampered', expiry),
                                      '%s; configuration %s, history %r then %r' % (bad[1], label, hist, desc),
                                      {'cfg': list(cfg), 'history': hist + [desc]})
                        continue
                    if ns not in seen:
                        seen.add(ns)
                        nxt.append((ns, hist + [desc]))
                        acc.evaluated += 1
                        if not ns[0][1] or ns[2] > 0:
                            acc.add('nontrivial')
                        if acc.evaluated % 4000 == 1:
                            acc.sample({'config': label, 'history': hist + [desc]})
            frontier = nxt
            d += 1
        acc.outcome('states|%s' % label, len(seen))
    finally:
        w.restore_clock()


def check_two_cookies(acc, part=0, nparts=1):
    """Two SignedCookieMiddleware instances (own names) behind the other bundled response-rewriting middlewares, a
    client that accepts gzip, bodies that compress: every history of <= 3 steps over {write first, write second,
    write both, read}; what each cookie presents is what was stored in it."""
    import itertools
    from clastic import Application
    from clastic.middleware import GzipMiddleware, HTTPCacheMiddleware
    from clastic.middleware.cookie import SignedCookieMiddleware
    from clastic.middleware.stats import StatsMiddleware
    from werkzeug.wrappers import Response

    def ep(sess, prefs, request):
        before = {'sess': dict(sess), 'prefs': dict(prefs)}
        op = request.args.get('op')
        if op in ('first', 'both'):
            sess['u'] = request.args['v']
        if op in ('second', 'both'):
            prefs['p'] = request.args['v']
        return Response(json.dumps(before, sort_keys=True) + ' ' * 3000, status=200 if request.args.get('ok') else 201)
    combo_k = [0]
    for expiry in (EXPIRY, 0):
        for front in ([GzipMiddleware()], [HTTPCacheMiddleware(), GzipMiddleware()], [StatsMiddleware()], []):
            for ae in ('gzip', None):
                combo_k[0] += 1
                if combo_k[0] % nparts != part:
                    continue
                # named: the two middlewares differ in arg_name and cookie_name / in arg_name only (default cookie names)
                # cond: the client revalidates (If-None-Match with the last ETag it saw) and the endpoint answers 200
                for hist, named, cond in itertools.product(itertools.product(('first', 'second', 'both', 'read'), repeat=3),
                                                           (True, False), (False, True)):
                    nm = (lambda n: {'cookie_name': n}) if named else (lambda n: {})
                    app = Application([('/', ep)], middlewares=front + [
                        SignedCookieMiddleware(secret_key=KEY, arg_name='sess', expiry=expiry, **nm('sid')),
                        SignedCookieMiddleware(secret_key=b'second-key', arg_name='prefs', expiry=expiry, **nm('prf'))])
                    jar, model = {}, {'sess': {}, 'prefs': {}}
                    etag = None
                    for j, op in enumerate(hist + ('read',)):
                        hdrs = {'Cookie': '; '.join('%s=%s' % kv for kv in sorted(jar.items()))} if jar else {}
                        if ae:
                            hdrs['Accept-Encoding'] = ae
                        if cond and etag:
                            hdrs['If-None-Match'] = etag
                        res = wsgi.call(app, '/', 'GET', query='op=%s&v=v%d%s' % (op, j, '&ok=1' if cond else ''), headers=hdrs)
                        acc.transitions += 1
                        acc.validated += 1
                        case = {'two_cookies': True, 'expiry': expiry, 'front': [type(m).__name__ for m in front], 'ae': ae,
                                'history': list(hist[:j + 1]), 'named': named, 'conditional': cond}
                        if res.raised is not None or res.code not in ((200, 304) if cond else (201,)):
                            acc.violation('C16:two-cookies:status', 'answered %s %r; %r' % (res.status, res.raised, case), case)
                            break
                        etag = res.header('ETag') or etag
                        if res.code == 304:
                            # nothing to read: the client keeps the body it has; the cookies of this response count
                            acc.add('two_cookies_304')
                            if op in ('first', 'both'):
                                model['sess'] = dict(model['sess'], u='v%d' % j)
                            if op in ('second', 'both'):
                                model['prefs'] = dict(model['prefs'], p='v%d' % j)
                            for sc in res.header_all('Set-Cookie'):
                                name, _, rest = sc.partition('=')
                                jar[name] = rest.split(';', 1)[0]
                            continue
                        body = res.body
                        if (res.header('Content-Encoding') or '').lower() == 'gzip':
                            import gzip as _gz
                            body = _gz.decompress(body)
                        seen = json.loads(body.decode('utf-8'))
                        if seen != model:
                            acc.violation('C16:two-cookies:presented', 'the endpoint was presented %r, stored so far: %r; %r'
                                          % (seen, model, case), case)
                            break
                        if op in ('first', 'both'):
                            model['sess'] = dict(model['sess'], u='v%d' % j)
                        if op in ('second', 'both'):
                            model['prefs'] = dict(model['prefs'], p='v%d' % j)
                        for sc in res.header_all('Set-Cookie'):
                            name, _, rest = sc.partition('=')
                            jar[name] = rest.split(';', 1)[0]
    acc.outcome('two-cookies')


def check_dev_server_clients(acc):
    """Two clients talking to one running development server (one server object, the environ of every request built
    by its request handler): a client that sends no cookie is presented an empty one, whatever the client before it
    sent; a client's own cookie is presented to it.  All orders of {A with cookie, B without, B with its own}."""
    import itertools
    from clastic import Application
    from clastic.middleware.cookie import SignedCookieMiddleware
    from werkzeug.wrappers import Response

    def ep(cookie, request):
        before = dict(cookie)
        if request.args.get('v'):
            cookie['who'] = request.args['v']
        return Response(json.dumps(before, sort_keys=True), status=201)
    for expiry in (0, EXPIRY):
        app = Application([('/', ep)], middlewares=[SignedCookieMiddleware(secret_key=KEY, expiry=expiry)])
        server = wsgi.DevServer(app)
        try:
            jars = {}
            for name in ('A', 'B'):
                res = wsgi.call(app, None, environ=server.environ('/', query='v=' + name))
                for sc in res.header_all('Set-Cookie') if res.headers else ():
                    nm, _, rest = sc.partition('=')
                    jars[name] = '%s=%s' % (nm, rest.split(';', 1)[0])
            if len(jars) != 2:
                acc.violation('C16:dev-server:no-cookie', 'no cookie issued through the development server environ: %r' % (jars,), {'dev_server_clients': True})
                return
            steps = [('A', True), ('B', False), ('B', True), ('A', False)]
            for order in itertools.permutations(steps, 3):
                for who, with_cookie in order:
                    hdrs = {'Cookie': jars[who], 'X-Client': who} if with_cookie else {'User-Agent': 'client-' + who}
                    res = wsgi.call(app, None, environ=server.environ('/', headers=hdrs))
                    acc.transitions += 1
                    acc.validated += 1
                    got = json.loads(res.body.decode('utf-8')) if res.code == 201 else None
                    if got is not None:
                        got.pop('_expires', None)
                    want = {'who': who} if with_cookie else {}
                    if got != want:
                        acc.violation('C16:dev-server:presented', 'one development server, requests %r: client %s (%s cookie) was presented %r '
                                      '(status %s), expected %r' % (order, who, 'with its' if with_cookie else 'without a', got, res.status, want),
                                      {'dev_server_clients': True})
                        return
        finally:
            server.close()
    acc.outcome('dev-server-clients')


def check_forked_workers(acc):
    """A pre-fork deployment: the application is built once, then worker processes are forked from it; a cookie issued
    by one worker is presented intact by every other worker - with a configured secret and with the one the middleware
    makes up for itself.  Every (issuing worker, reading worker) pair over three workers."""
    import itertools
    import pickle
    from clastic import Application
    from clastic.middleware.cookie import SignedCookieMiddleware
    from werkzeug.wrappers import Response

    def ep(cookie, request):
        before = dict(cookie)
        if request.args.get('v'):
            cookie['who'] = request.args['v']
        return Response(json.dumps(before, sort_keys=True), status=201)

    def in_worker(app, query, cookie_hdr):
        # one request served by a freshly forked worker; the parent never serves a request itself
        r, w = os.pipe()
        pid = os.fork()
        if pid == 0:
            try:
                os.close(r)
                res = wsgi.call(app, '/', 'GET', query=query, headers={'Cookie': cookie_hdr} if cookie_hdr else None)
                out = (res.code, res.body, res.header_all('Set-Cookie') if res.headers else [], repr(res.raised) if res.raised else None)
                os.write(w, pickle.dumps(out))
            finally:
                os._exit(0)
        os.close(w)
        chunks = []
        while True:
            c = os.read(r, 65536)
            if not c:
                break
            chunks.append(c)
        os.close(r)
        os.waitpid(pid, 0)
        return pickle.loads(b''.join(chunks))
    for secret, expiry in itertools.product((KEY, None), (0, EXPIRY)):
        app = Application([('/', ep)], middlewares=[SignedCookieMiddleware(secret_key=secret, expiry=expiry)])
        for issuer, reader in itertools.product(range(3), repeat=2):
            acc.transitions += 2
            acc.validated += 1
            case = {'forked_workers': True, 'configured_secret': secret is not None, 'expiry': expiry}
            code, body, set_cookies, raised = in_worker(app, 'v=w%d' % issuer, None)
            jar = '; '.join(sc.split(';', 1)[0] for sc in set_cookies)
            if code != 201 or not jar:
                acc.violation('C16:forked-workers:issue', 'worker %d answered %s %s, cookies %r' % (issuer, code, raised, set_cookies), case)
                return
            code, body, _, raised = in_worker(app, '', jar)
            got = json.loads(body.decode('utf-8')) if code == 201 else None
            if got is not None:
                got.pop('_expires', None)
            if got != {'who': 'w%d' % issuer}:
                acc.violation('C16:forked-workers:presented', 'a cookie issued by one worker process and sent to another (application built once, '
                              'workers forked, %s secret): presented %r (status %s %s), stored {"who": "w%d"}'
                              % ('configured' if secret else 'self-made', got, code, raised, issuer), case)
                return
    acc.outcome('forked-workers')


def check_sibling_cookie_apps(acc):
    """Two applications, each with a SignedCookieMiddleware of its own (own secret, own expiry), embedded side by side
    in one parent - in both orders, with the same and with different cookie names: each keeps verifying with its own
    secret; a cookie the other one issued presents nothing."""
    import itertools
    from clastic import Application
    from clastic.middleware.cookie import SignedCookieMiddleware
    from werkzeug.wrappers import Response

    def ep(cookie, request):
        before = dict(cookie)
        if request.args.get('v'):
            cookie['who'] = request.args['v']
        return Response(json.dumps(before, sort_keys=True), status=201)
    for order in (('blog', 'admin'), ('admin', 'blog')):
        for parent_mw in (False,):     # (a cookie middleware on the parent would displace the others: unique type)
            subs = {'blog': Application([('/', ep)], middlewares=[SignedCookieMiddleware(secret_key=b'blog-key')]),
                    'admin': Application([('/', ep)], middlewares=[SignedCookieMiddleware(secret_key=b'admin-key', expiry=EXPIRY)])}
            pm = [SignedCookieMiddleware(secret_key=b'parent-key', arg_name='pc', cookie_name='pc')] if parent_mw else []
            root = Application([('/' + name, subs[name]) for name in order], middlewares=pm)
            issued = {}
            for name in order:
                res = wsgi.call(root, '/' + name + '/', 'GET', query='v=' + name)
                acc.transitions += 1
                for sc in res.header_all('Set-Cookie') if res.headers else ():
                    nm, _, rest = sc.partition('=')
                    if nm == 'clastic_cookie':
                        issued[name] = rest.split(';', 1)[0]
            for holder, target in itertools.product(order, repeat=2):
                case = {'sibling_cookie_apps': True, 'order': list(order), 'parent_mw': parent_mw}
                if holder not in issued:
                    acc.violation('C16:siblings:no-cookie', 'application %s issued no cookie; %r' % (holder, case), case)
                    continue
                res = wsgi.call(root, '/' + target + '/', 'GET', headers={'Cookie': 'clastic_cookie=' + issued[holder]})
                acc.transitions += 1
                acc.validated += 1
                want = {'who': holder} if holder == target else {}
                got = json.loads(res.body.decode('utf-8')) if res.code == 201 else None
                if got is not None:
                    got.pop('_expires', None)
                if got != want:
                    acc.violation('C16:siblings:presented', 'the cookie issued by %s, sent to %s, presented %r (status %s), expected %r; %r'
                                  % (holder, target, got, res.status, want, case), case)
    acc.outcome('sibling-cookie-apps')


def configs():
    return [(e, c, x) for e in ('session', 'never', 'numeric') for c in (False, True) for x in (True, False)] + \
           [('numeric-deprecated', False, True), ('session', False, 'unicode'), ('numeric', False, 'unicode')]


def nshards(tier):
    return 32


def shard(tier, i, n, seed):
    common.setup_repo()
    acc = common.Acc()
    depth = 4 if tier == 'quick' else 5
    acc.outcome('tz|' + common.set_tz(i))
    for cfg in configs():
        explore(acc, cfg, depth, i, n)
        if acc.extra.get('cap_hit'):
            break
    check_two_cookies(acc, i, n)
    if i == 5 % n:
        check_sibling_cookie_apps(acc)
    if i == 6 % n:
        check_dev_server_clients(acc)
    if i == 7 % n:
        check_forked_workers(acc)
    return acc


def finish(tier, merged, results):
    if not merged['violations'] and merged['evaluated'] < 1000:
        raise common.InternalError('vacuous: %d states' % merged['evaluated'])
    return {'bounds': {'history_depth': 4 if tier == 'quick' else 5, 'configs': len(configs()), 'values': [repr(v) for v in VALUES],
                       'tampers': TAMPERS, 'clients': 2, 'clock_advances': ADVANCES},
            'distinct_nontrivial': merged['extra'].get('nontrivial', 0),
            'coverage': {'note': 'every shard expands the whole depth-0 frontier and its own part of the depth-1 frontier; '
                                 'states below are explored with a shard-local seen-set'}}


def replay(case):
    for k in range(len(common.TZS)):
        common.set_tz(k)
        ok, text = _replay(case)
        if not ok:
            return ok, '%s (TZ=%s)' % (text, common.TZS[k])
    return ok, text


def _replay(case):
    common.setup_repo()
    if case.get('forked_workers'):
        acc = common.Acc()
        check_forked_workers(acc)
        return (False, acc.violations[0]['desc']) if acc.violations else (True, 'ok')
    if case.get('dev_server_clients'):
        acc = common.Acc()
        check_dev_server_clients(acc)
        return (False, acc.violations[0]['desc']) if acc.violations else (True, 'ok')
    if case.get('sibling_cookie_apps'):
        acc = common.Acc()
        check_sibling_cookie_apps(acc)
        return (False, acc.violations[0]['desc']) if acc.violations else (True, 'ok')
    if case.get('two_cookies'):
        acc = common.Acc()
        check_two_cookies(acc)
        return (False, acc.violations[0]['desc']) if acc.violations else (True, 'ok')
    cfg = tuple(case['cfg'])
    w = World(*cfg)
    w.install_clock()
    try:
        state = initial_state()
        for want in case['history']:
            found = False
            for desc, ns, bad in successors(w, state):
                if desc == want:
                    found = True
                    if bad:
                        return False, '%s at %r' % (bad[1], desc)
                    state = ns
                    break
            if not found:
                return True, 'history step %r not enabled any more' % (want,)
        return True, 'ok'
    finally:
        w.restore_clock()
