# -*- coding: utf-8 -*-
"""C20 - the Flaw failsafe page works for any start-up error text.

Enumerated completely: real tracebacks (exception types x stack depths x
message kinds, SyntaxError reports, chained exceptions), every line-boundary
prefix and suffix of each and concatenations, every string of length <= 3
over a markup/template alphabet, a fixed set of non-text inputs; crossed
with monitored-file lists and request paths/methods.  Oracle: create_app
returns, every request is a 200 HTML page whose tag skeleton equals the one
obtained with a neutral text, the text and the file names appear verbatim in
the parsed page, and for a standard traceback the exception type and message
appear outside the raw traceback block.
"""
import html.parser
import itertools
import os
import sys
import time
import traceback

from mc import common, wsgi

ID = 'C20'
LEVEL = 'model_checking'
BUDGET = {'quick': 300, 'thorough': 2400}
RULE = ('error texts enumerated completely per family (real tracebacks and all their line prefixes/suffixes, all short '
        'strings over the markup alphabet, fixed non-text inputs) x monitored-file lists x requests; one evaluation = one '
        'request to a failsafe application; non-trivial = text containing markup/template characters or a standard '
        'traceback; distinct = distinct (family, file-list kind, outcome) classes')
ASSUMPTIONS = ['html.parser tokenisation; the neutral text for the structure comparison has the same number of lines',
               'a standard traceback = starts with the Traceback header and ends with a single line "Type: message"',
               'lone surrogates are outside the catalogue (not encodable)']

ALPHABET = ['{', '}', '#', '/', '<', '>', '"', '&', ':', ' ', '\n', 'x']
PATHS = [('/', 'GET'), ('/x/y', 'GET'), ('/clastic_assets/nope', 'GET'), ('/<b>{x}', 'GET'), ('/', 'POST'), ('/x/y', 'POST'),
         ('/clastic_assets/../x', 'GET'), ('/clastic_assets//etc/passwd', 'GET'), ('/clastic_assets/a/../../b', 'GET'),
         ('/', 'PROPFIND'), ('/x/y', 'purge'), ('/', 'get'), ('/', 'HEAD'), ('/x', 'OPTIONS'),
         # the mount point itself (empty PATH_INFO) and paths made of slashes only
         ('', 'GET'), ('//', 'GET'), ('///', 'POST'),
         # request lines as clastic's own development server turns them into an environ (that is how the failsafe
         # application is served after a failed start-up): percent-encoded text beyond latin-1, a query string
         (u'@dev/€', 'GET'), (u'@dev/日本/x', 'GET'), (u'@dev/café', 'POST'), (u'@dev/x?q=€', 'GET')]


def deadline_passed():
    d = os.environ.get('VERIF_DEADLINE')
    return bool(d) and time.time() > float(d)


class CustomError(Exception):
    pass


MESSAGES = ['plain message', '<b>bold</b> & "quoted" \'single\'', 'key: value: more', u'caf\xe9 中文', '{tb_str} {#x}{/x} {>p/}', '']
EXC_TYPES = [ValueError, KeyError, TypeError, RuntimeError, ImportError, AttributeError, ZeroDivisionError, OSError, CustomError,
             NameError]


def raise_at(depth, exc):
    if depth <= 1:
        raise exc
    return raise_at(depth - 1, exc)


def real_tracebacks():
    out = []
    for ti, T in enumerate(EXC_TYPES):
        for depth in (1, 2, 3):
            for mi, msg in enumerate(MESSAGES):
                if (ti + depth + mi) % 3 and not (ti < 2):
                    continue
                try:
                    raise_at(depth, T(msg))
                except Exception:
                    out.append(('tb-%s-d%d-m%d' % (T.__name__, depth, mi), traceback.format_exc()))
    # SyntaxError reports
    for src in ('def f(:\n  pass\n', 'x = (1,\n', 'print "hello"\n', 'if True:\nx=1\n'):
        try:
            compile(src, 'broken_module.py', 'exec')
        except SyntaxError:
            out.append(('syntax', traceback.format_exc()))
    # chained
    try:
        try:
            raise_at(2, KeyError('inner <i>'))
        except KeyError:
            raise_at(2, ValueError('outer: after "inner"'))
    except ValueError:
        out.append(('chained', traceback.format_exc()))
    # module-level import error look-alike
    out.append(('classic', u'Traceback (most recent call last):\n  File "example.py", line 2, in <module>\n    plarp\n'
                           u'NameError: name \'plarp\' is not defined\n'))
    return out


def is_standard(text):
    # exactly what the statement says: the *last line* is 'Type: message' (one final newline is still that
    # line; a trailing blank line is not)
    lines = text.lstrip('\n').splitlines()
    if len(lines) < 3 or lines[0].strip() != 'Traceback (most recent call last):':
        return None
    last = lines[-1]
    t, sep, msg = last.partition(':')
    if not sep or not t or len(t.split()) != 1 or not msg.strip():
        return None
    if 'During handling' in text or 'direct cause' in text:
        return None
    if not lines[-2].startswith('    '):
        return None
    return t, msg.strip()


def texts(tier):
    """(family, text)"""
    tbs = real_tracebacks()
    for name, tb in tbs:
        yield 'traceback', tb
    for name, tb in tbs[::3] if tier == 'quick' else tbs:
        lines = tb.splitlines(True)
        for k in range(1, len(lines)):
            yield 'tb-prefix', ''.join(lines[:k])
            yield 'tb-suffix', ''.join(lines[k:])
    for (n1, a), (n2, b) in itertools.product(tbs[:3], tbs[-3:]):
        yield 'tb-concat', a + b
        yield 'tb-concat', a + '\n' + b
    maxlen = 3 if tier == 'quick' else 4
    for n in range(0, maxlen + 1):
        for cs in itertools.product(ALPHABET, repeat=n):
            yield 'short', ''.join(cs)
    # long texts whose utf-8 size is far from their character count, ending in a recognisable tail
    for body in (u'\xe9' * 9000, u'\u4e2d' * 6000, u'a' + u'\xe9\u4e2d' * 5000,
                 u'Traceback (most recent call last):\n' + u''.join(u'  File "/proj/caf\xe9/m\xf6dule_%d.py", line %d, in f\xfcnction\n    x = y\n' % (k, k) for k in range(400))):
        yield 'fixed', body + u'\nValueError: the very end \xe9\u4e2d ZQTAIL'
    # text with lone surrogates: what a traceback through a surrogate-escaped file name looks like
    yield 'fixed', u'\ud800 lone surrogate'
    yield 'fixed', u'Traceback (most recent call last):\n  File "/x/caf\udce9.py", line 1, in <module>\n    import nothing\nImportError: no module caf\udce9'
    for t in ['', ' ', '\n', '\n\n', 'no traceback here', 'a\x00b', '\x01\x02\x7f', u'\xe9' * 50, 'x' * 20000, 'Traceback (most recent call last):',
              'Traceback (most recent call last):\n', 'ValueError: x', '  File "a.py", line 1\n    x = (\n        ^\nSyntaxError: invalid syntax',
              '{', '{tb_str}', '{#parsed_err}{exc_type}{/parsed_err}', '{@eq key=1 value=1}x{/eq}', '{>flaw_tmpl/}', '{tb_str|s}', '{~lb}',
              '<script>alert(1)</script>', '</pre><h1>x</h1>', '&amp;&lt;', '<!--', ']]>', '<pre>']:
        yield 'fixed', t
    for t in [None, b'bytes error text', b'\xff\xfe not utf8', u'unicode \xe9'.encode('utf-8'), 12345, ['a', 'list']]:
        yield 'nontext', t


def file_lists():
    big = ['/proj/module_%03d.py' % i for i in range(200)]
    markup = ['/proj/<b>bold</b>.py', '/proj/a&b "q".py', '/proj/{tb_str}{#x}.py', os.path.join(os.path.dirname(os.__file__), '<i>stdlib</i>.py')]
    relative = ['example.py', 'conf/<site>.yaml', '', './x.py', '../up.py', u'/proj/caf\udce9.py']
    return [('none', None), ('empty', []), ('long', big), ('markup', markup), ('plain', ['/proj/app.py', '/proj/util.py']),
            ('relative', relative)]


class Skel(html.parser.HTMLParser):
    def __init__(self):
        html.parser.HTMLParser.__init__(self, convert_charrefs=True)
        self.events = []
        self.stack = []
        self.text_in_pre = []
        self.text_outside = []
        self.li = []

    def handle_starttag(self, tag, attrs):
        self.events.append(('s', tag, tuple(sorted(k for k, v in attrs))))
        if tag not in ('link', 'br', 'hr', 'meta'):
            self.stack.append(tag)

    def handle_endtag(self, tag):
        self.events.append(('e', tag))
        if tag in self.stack:
            while self.stack and self.stack.pop() != tag:
                pass

    def handle_data(self, data):
        if 'pre' in self.stack:
            self.text_in_pre.append(data)
        else:
            self.text_outside.append(data)
        if 'li' in self.stack:
            self.li.append(data)

    def handle_comment(self, data):
        self.events.append(('c',))

    def handle_decl(self, d):
        self.events.append(('d',))

    def unknown_decl(self, d):
        self.events.append(('ud',))

    def handle_pi(self, d):
        self.events.append(('pi',))


def parse(body):
    p = Skel()
    p.feed(body.decode('utf-8', 'replace'))
    p.close()
    return p


def split_heading(events):
    """The error heading (first h2 of the page) may legitimately have two shapes (parsed type + message, or the
    last line of the text); it is judged separately from the rest of the skeleton."""
    start = None
    for k, ev in enumerate(events):
        if ev[0] == 's' and ev[1] == 'h2':
            start = k
            break
    if start is None:
        return None, events
    end = start
    while end < len(events) and events[end] != ('e', 'h2'):
        end += 1
    return events[start:end + 1], events[:start] + events[end + 1:]


def heading_ok(h):
    if h is None:
        return False
    allowed = [('s', 'h2', ('class',)), ('s', 'p', ()), ('e', 'p'), ('e', 'h2')]
    return all(ev in allowed for ev in h) and h[0][0] == 's' and h[-1] == ('e', 'h2')


def neutral_like(text):
    if not isinstance(text, str):
        return text
    return '\n'.join('n' * min(len(l), 5) for l in text.split('\n'))


def check_text(acc, flaw, family, text, flname, files, neutral_cache):
    case = {'family': family, 'text': text if isinstance(text, (str, type(None))) else repr(text), 'files': flname,
            'text_is_bytes': isinstance(text, bytes)}
    label = family

    def bad(k, msg, extra=''):
        feat = 'markupfiles' if flname == 'markup' else 'plainfiles'
        acc.violation('C20:%s:%s:%s' % (k, family, feat), '%s; error text %r, files %s%s' % (msg, (text[:200] if isinstance(text, (str, bytes)) else text), flname, extra), case)
    try:
        app = flaw.create_app(text, list(files) if files is not None else None)
    except Exception as e:
        acc.evaluated += 1
        acc.validated += 1
        bad('create-app-raised-%s' % type(e).__name__, 'create_app raised %r' % (e,))
        return
    std = is_standard(text) if isinstance(text, str) else None
    for path, method in PATHS:
        if path.startswith('@dev'):
            p_, _, q_ = path[4:].partition('?')
            from urllib.parse import quote as _quote
            res = wsgi.call(app, None, environ=wsgi.dev_server_environ(p_, method, query=_quote(q_.encode('utf-8'), safe='=&')))
        else:
            res = wsgi.call(app, path, method)
        acc.evaluated += 1
        acc.transitions += 1
        acc.validated += 1
        if std or (isinstance(text, str) and any(c in text for c in '<>&{}"')):
            acc.add('nontrivial')
        if res.raised is not None:
            bad('raised-%s' % type(res.raised).__name__, 'request %s %s raised %r' % (method, path, res.raised))
            return
        acc.outcome('%s|%s|%s' % (label, flname, res.code))
        # (a path under /clastic_assets/ that is not an asset falls through to the failsafe page like any other)
        if res.code != 200:
            bad('status-%s' % res.code, '%s %s answered %s' % (method, path, res.status), ' body=%r' % (res.body or b'')[:200])
            return
        if method == 'HEAD':
            continue
        ct = (res.header('Content-Type') or '')
        if not ct.startswith('text/html'):
            bad('content-type', 'Content-Type %r' % ct)
            return
        page = parse(res.body)
        # structure must not depend on the text / file names
        nkey = (flname if flname != 'markup' else 'markup-neutral', isinstance(text, str), bool(std),
                None if text is None else (len(text.split('\n')) if isinstance(text, str) else 1))
        if nkey not in neutral_cache:
            nfiles = None if files is None else ['/proj/neutral%d.py' % i for i in range(len(files))]
            if flname == 'markup':
                nfiles[-1] = os.path.join(os.path.dirname(os.__file__), 'neutral.py')
            ntext = neutral_like(text)
            if std:
                ntext = 'Traceback (most recent call last):\n  File "n.py", line 1, in f\n    n\nNeutralError: neutral'
            napp = flaw.create_app(ntext, nfiles)
            neutral_cache[nkey] = split_heading(parse(wsgi.call(napp, '/', 'GET').body).events)[1]
        heading, rest = split_heading(page.events)
        if isinstance(text, str):
            if not heading_ok(heading):
                bad('structure-heading', 'the error heading contains markup: %r' % (heading,))
                return
            ne = neutral_cache[nkey]
            if rest != ne:
                k = 0
                while k < min(len(ne), len(rest)) and ne[k] == rest[k]:
                    k += 1
                bad('structure', 'page structure differs from the neutral page at event %d: %r vs %r' % (k, rest[k:k + 2], ne[k:k + 2]))
                return
        def shown(t):
            # characters no charset can carry (lone surrogates) are shown backslash-escaped
            return t.encode('utf-8', 'backslashreplace').decode('utf-8')
        if isinstance(text, str) and text.strip() and '\r' not in text and '\x00' not in text:
            pre = ''.join(page.text_in_pre)
            if shown(text).strip() not in pre and shown(text) not in pre:
                bad('text-missing', 'the error text is not present verbatim in the <pre> block (got %r)' % pre[:200])
                return
        if files:
            listed = ''.join(page.li)
            for fn in files:
                if fn and shown(fn) not in listed:
                    bad('file-missing', 'monitored file %r is not listed' % fn)
                    return
        if std:
            outside = ' '.join(page.text_outside)
            t, msg = std
            if shown(t) not in outside or shown(msg) not in outside:
                bad('type-and-message-missing', 'standard traceback: %r / %r are not named outside the raw traceback block '
                    '(text outside: %r)' % (t, msg, ' '.join(outside.split())[:300]))
                return


# ---- the failed start-up itself: the reloader turns the child's stderr into the failsafe application ----------------
STARTUPS = [
    ('sysexit-message', 'import sys\nsys.exit("could not load settings: DB_URL is not set")\n', ['could not load settings: DB_URL is not set']),
    ('sysexit-markup', 'import sys\nsys.exit("refusing to start <b>twice</b> & {again}")\n', ['refusing to start <b>twice</b> & {again}']),
    ('traceback', 'def f():\n    raise ValueError("boom <x>")\nf()\n', ['ValueError: boom <x>', 'Traceback (most recent call last):']),
    ('warning-then-traceback', 'import sys\nsys.stderr.write("warning: deprecated thing\\n")\nraise KeyError("k")\n',
     ['warning: deprecated thing', "KeyError: 'k'"]),
    ('syntax-error', 'def (:\n', ['SyntaxError']),
    ('not-utf8', 'import sys\nsys.stderr.buffer.write(b"caf\\xe9 is closed\\n")\nsys.stderr.flush()\nsys.exit(1)\n', [' is closed']),
    ('blank-lines', 'import sys\nsys.stderr.write("\\n\\n  \\n")\nsys.exit(1)\n', []),
    ('no-newline', 'import sys\nsys.stderr.write("died without a newline")\nsys.stderr.flush()\nimport os\nos._exit(1)\n', ['died without a newline']),
    ('very-long', 'import sys\nfor i in range(3000):\n    sys.stderr.write("line %d of the log\\n" % i)\nsys.exit("last words")\n', ['last words']),
    ('exception-group', 'raise ExceptionGroup("several", [ValueError("a<1>"), TypeError("b")])\n', ['several']),
]


class _Done(BaseException):
    pass


def check_reloader(acc, only=None):
    """clastic.server.restart_with_reloader run in-process for start-up scripts that fail in every way a start-up can
    put text on stderr; its error_func builds the failsafe application like run_simple's serve_error_app does."""
    import io
    import shutil
    import tempfile
    from html import escape
    from clastic import flaw, server
    tmp = tempfile.mkdtemp(prefix='c20-startup-')
    old_argv, old_err, old_out = sys.argv, sys.stderr, sys.stdout
    try:
        for name, body, expect in STARTUPS:
            if only and name != only:
                continue
            acc.evaluated += 1
            acc.transitions += 1
            acc.validated += 1
            acc.add('nontrivial')
            case = {'startup': name}
            script = os.path.join(tmp, name.replace('-', '_') + '.py')
            with open(script, 'w') as f:
                f.write(body)
            seen = {}

            def error_func(tb_str, monitored):
                seen['text'] = tb_str
                seen['app'] = flaw.create_app(tb_str, monitored)
                raise _Done()
            sys.argv = [script]
            sys.stderr, sys.stdout = io.StringIO(), io.StringIO()
            died = None
            try:
                try:
                    ret = server.restart_with_reloader(error_func=error_func)
                    died = 'returned %r without building the failsafe application' % (ret,)
                except _Done:
                    pass
                except Exception as e:
                    died = 'died with %r' % (e,)
            finally:
                sys.stderr, sys.stdout = old_err, old_out
            acc.outcome('startup|%s' % name)
            if died:
                acc.violation('C20:reloader:%s' % name, 'start-up script %r (exit status 1, text on stderr): the reloader %s' % (body, died), case)
                continue
            for path in ('/', '/x/y'):
                res = wsgi.call(seen['app'], path, 'GET')
                acc.transitions += 1
                page = (res.body or b'').decode('utf-8', 'replace')
                missing = [t for t in expect if escape(t, True) not in page and escape(t, True).replace('&#x27;', '&#39;') not in page]
                if res.raised is not None or res.code != 200 or missing:
                    acc.violation('C20:reloader-page:%s' % name, 'failsafe page for start-up %r answered %s %r, missing %r'
                                  % (name, res.status, res.raised, missing), case)
                    break
    finally:
        sys.argv = old_argv
        shutil.rmtree(tmp, ignore_errors=True)


RAW_REQUESTS = [
    ('plain', b'GET / HTTP/1.1\r\nHost: localhost\r\n\r\n'),
    ('http10', b'GET /x/y HTTP/1.0\r\n\r\n'),
    ('long-2k', b'GET /' + b'a' * 2000 + b' HTTP/1.1\r\nHost: localhost\r\n\r\n'),
    ('long-70k', b'GET /' + b'a' * 70000 + b' HTTP/1.1\r\nHost: localhost\r\n\r\n'),
    ('long-100k-query', b'GET /x?' + b'q=1&' * 25000 + b' HTTP/1.1\r\nHost: localhost\r\n\r\n'),
    ('beyond-latin1', b'GET /%E2%82%AC/%E6%97%A5?q=%E2%82%AC HTTP/1.1\r\nHost: localhost\r\n\r\n'),
    ('post-body', b'POST /submit HTTP/1.1\r\nHost: localhost\r\nContent-Length: 3\r\nContent-Type: text/plain\r\n\r\nabc'),
    ('absolute-form', b'GET http://localhost/x HTTP/1.1\r\nHost: other.example\r\n\r\n'),
    ('many-headers', b'GET / HTTP/1.1\r\nHost: localhost\r\n' + b''.join(b'X-H%d: v\r\n' % i for i in range(90)) + b'\r\n'),
]
SERVED_TEXTS = ['Traceback (most recent call last):\n  File "app.py", line 3, in <module>\n    boom()\nValueError: boom <x> & {y}',
                'could not load settings', '']


def check_served(acc):
    """The failsafe application the way it is served after a failed start-up: by clastic's development server.  Raw
    connections (request line, headers, body) go through the server's own request handler, without a socket."""
    from html import escape
    from clastic import flaw
    for ti, text in enumerate(SERVED_TEXTS):
        app = flaw.create_app(text, ['/proj/app.py', '/proj/<b>.py'])
        server = wsgi.DevServer(app)
        try:
            for name, raw in RAW_REQUESTS:
                acc.evaluated += 1
                acc.transitions += 1
                acc.validated += 1
                acc.add('nontrivial')
                case = {'served': name, 'text': ti}
                try:
                    code, head, body = wsgi.dev_server_exchange(server, raw)
                except Exception as e:
                    acc.violation('C20:served:%s:raised' % name, 'connection %s made the development server raise %r' % (name, e), case)
                    continue
                acc.outcome('served|%s|%s' % (name, code))
                page = body.decode('utf-8', 'replace')
                last = text.split('\n')[-1]
                if code != 200 or escape(last, True).replace('&#x27;', '&#39;') not in page.replace('&#x27;', '&#39;'):
                    acc.violation('C20:served:%s:%s' % (name, code), 'the failsafe application behind the development server answered connection '
                                  '%s with %s (%d body bytes); expected the 200 page with the error text' % (name, code, len(body)), case)
        finally:
            server.close()


def work(tier):
    fls = file_lists()
    items = []
    for k, (family, text) in enumerate(texts(tier)):
        # every text with the rotating file list, plus markup files for the traceback family
        items.append((family, text, fls[k % len(fls)]))
        if family in ('traceback', 'fixed', 'nontext'):
            for fl in fls:
                if fl is not fls[k % len(fls)]:
                    items.append((family, text, fl))
    return items


def nshards(tier):
    return 32


def shard(tier, i, n, seed):
    common.setup_repo()
    from clastic import flaw
    acc = common.Acc()
    cache = {}
    if i == 1 % n:
        check_reloader(acc)
    if i == 2 % n:
        check_served(acc)
    for k, (family, text, (flname, files)) in enumerate(work(tier)):
        if k % n != i:
            continue
        if k % 64 == i and deadline_passed():
            acc.extra['cap_hit'] = 1
            break
        check_text(acc, flaw, family, text, flname, files, cache)
        if k % 997 == i:
            acc.sample({'family': family, 'text': text if isinstance(text, str) else repr(text), 'files': flname})
    return acc


def finish(tier, merged, results):
    oc = merged['outcomes']
    if not merged['violations']:
        for need in ('traceback|', 'short|', 'nontext|'):
            if not any(k.startswith(need) for k in oc):
                raise common.InternalError('vacuous: family %s missing' % need)
    return {'bounds': {'texts': len(work(tier)), 'short_string_length': 3 if tier == 'quick' else 4, 'alphabet': ALPHABET,
                       'requests_per_text': len(PATHS), 'startup_scripts': [n_ for n_, _, _ in STARTUPS], 'file_lists': [n for n, _ in file_lists()]},
            'distinct_nontrivial': merged['extra'].get('nontrivial', 0)}


def replay(case):
    common.setup_repo()
    from clastic import flaw
    acc = common.Acc()
    if 'served' in case:
        check_served(acc)
        bad = [v for v in acc.violations if v['case'] == case]
        return (False, bad[0]['desc'][:2000]) if bad else (True, 'ok')
    if 'startup' in case:
        check_reloader(acc, only=case['startup'])
        return (False, acc.violations[0]['desc'][:2000]) if acc.violations else (True, 'ok')
    text = case['text']
    if case.get('text_is_bytes') or (isinstance(text, str) and text.startswith("b'")):
        import ast
        text = ast.literal_eval(text)
    files = dict(file_lists())[case['files']]
    check_text(acc, flaw, case['family'], text, case['files'], files, {})
    if acc.violations:
        return False, acc.violations[0]['desc'][:2000]
    return True, 'ok'
