# -*- coding: utf-8 -*-
"""C06 - dispatch: first match in order, methods, 404/405, non-breaking fall-through.

Every routing table inside the bound is built from real Route objects (by
constructor list and by every order of add(entry, index) calls), every request
of the catalogue is sent through the WSGI callable, and the observable
(status, which endpoints ran in which order, which route's result became the
response, Allow, Location) is compared with ref/dispatch.py.
"""
import itertools
import os
import time

from mc import common, wsgi
from ref import dispatch as D
from ref import match as M

ID = 'C06'
LEVEL = 'model_checking'
BUDGET = {'quick': 300, 'thorough': 3000}
RULE = ('routing tables are enumerated as mixed-radix products over (pattern, methods, behaviour) per route; each table '
        'x request is one evaluation; non-trivial = at least one route pattern matched the path; distinct = distinct '
        '(expected kind, executed-sequence shape, status) classes')
ASSUMPTIONS = ['ref/dispatch.py + ref/match.py are the trusted reading of the statement',
               'behaviour catalogue: answer / breaking 409 / breaking 503 / non-breaking 404 raised / non-breaking 403 '
               'returned / uncaught ValueError']

PATTERNS = ['/a', '/a/', '/<x>', '/a/<y?>', '/b']
METHODS = [None, ['GET'], ['POST'], ['get', 'Post']]      # the last one is declared in lower / mixed case
BEHAVIOURS = ['answer', 'break4', 'break5', 'nb404r', 'nb403t', 'boom']
REQ_PATHS = ['/a', '/a/', '/b', '/zz', '/a/q', '/a//q']
REQ_METHODS = ['GET', 'HEAD', 'POST', 'PUT', 'get', 'FOO']
MODES = [M.REDIRECT, M.STRICT, M.REWRITE]

SUB3 = ([0, 1, 2], [0, 1, 2], [0, 3, 5])           # pattern idx, method idx, behaviour idx
SUB3_MID = ([0, 1, 2], [0, 1, 2], [0, 3, 4, 5])
SUB3_BIG = ([0, 1, 2, 3, 4], [0, 1, 2], [0, 3, 4, 5])
SUB4 = ([1, 2], [0, 1, 2], [0, 3, 4, 5])
SUB2_MODES = ([0, 1, 2, 3], [0, 1, 2], [0, 2, 3, 4, 5])
SUB_ADD3 = ([1, 2], [0, 1], [0, 3, 5])


def deadline_passed():
    d = os.environ.get('VERIF_DEADLINE')
    return bool(d) and time.time() > float(d)


def catalogue(sub=None):
    if sub is None:
        sub = (range(len(PATTERNS)), range(len(METHODS)), range(len(BEHAVIOURS)))
    return [(p, m, b) for p in sub[0] for m in sub[1] for b in sub[2]]


def layers(tier):
    """(name, catalogue, n routes list, modes, with add orders)"""
    full = catalogue()
    if tier == 'quick':
        return [('L2', full, [0, 1, 2], [M.REDIRECT], False),
                ('L2m', catalogue(SUB2_MODES), [1, 2], [M.STRICT, M.REWRITE], False),
                ('A2', catalogue(SUB2_MODES), [1, 2], [M.REDIRECT], True),
                ('L3', catalogue(SUB3), [3], [M.REDIRECT], False),
                ('A3', catalogue(SUB_ADD3), [3], [M.REDIRECT], True)]
    return [('L2', full, [0, 1, 2], MODES, True),
            ('L3', catalogue(SUB3_MID), [3], MODES, False),
            ('A3', catalogue(SUB_ADD3), [3], MODES, True),
            ('L3b', catalogue(SUB3_BIG), [3], [M.REDIRECT], False),
            ('L4', catalogue(SUB4), [4], [M.REDIRECT], False)]


def layer_size(cat, ns, modes):
    return sum(len(cat) ** n for n in ns) * len(modes)


def table_at(cat, ns, modes, index):
    """index -> (mode, [route desc])"""
    mode = modes[index % len(modes)]
    index //= len(modes)
    for n in ns:
        size = len(cat) ** n
        if index < size:
            digits = common.mixed_radix(index, [len(cat)] * n)
            return mode, [cat[d] for d in digits]
        index -= size
    raise IndexError(index)


class Harness(object):
    def __init__(self):
        from werkzeug.wrappers import Response
        from clastic import errors
        self.log = []
        self.eps = {}
        log = self.log

        def mk(pos, beh):
            hdr = {'X-Marker': str(pos)}
            if beh == 'answer':
                def ep():
                    log.append(pos)
                    return Response('m%d' % pos, headers=hdr)
            elif beh == 'break4':
                def ep():
                    log.append(pos)
                    raise errors.Conflict('r%d' % pos, headers=hdr)
            elif beh == 'break5':
                def ep():
                    log.append(pos)
                    raise errors.ServiceUnavailable('r%d' % pos, headers=hdr)
            elif beh == 'nb404r':
                def ep():
                    log.append(pos)
                    raise errors.NotFound('r%d' % pos, is_breaking=False, headers=hdr)
            elif beh == 'nb403t':
                def ep():
                    log.append(pos)
                    return errors.Forbidden('r%d' % pos, is_breaking=False, headers=hdr)
            elif beh == 'boom':
                def ep():
                    log.append(pos)
                    raise ValueError('boom r%d' % pos)
            return ep
        for pos in range(4):
            for b in BEHAVIOURS:
                self.eps[(pos, b)] = mk(pos, b)
        # prepared (module-level style) non-breaking errors that several routes decline with
        shared = {'nbshared': errors.NotFound('shared', is_breaking=False, headers={'X-Marker': 'nbshared'}),
                  'nbshared2': errors.Forbidden('shared2', is_breaking=False, headers={'X-Marker': 'nbshared2'})}

        def mk_shared(pos, name):
            def ep():
                log.append(pos)
                raise shared[name]
            return ep
        for pos in range(4):
            for name in shared:
                self.eps[(pos, name)] = mk_shared(pos, name)

        def render(context):
            return Response('RENDERED-BY-MISTAKE', status=200)
        self.render = render

    def entry(self, pos, desc, style):
        from clastic import Route, GET, POST
        p, m, b = PATTERNS[desc[0]], METHODS[desc[1]], BEHAVIOURS[desc[2]]
        ep = self.eps[(pos, b)]
        # routes at odd positions have a render function: a Response or an HTTP error coming out of the endpoint -
        # raised or returned - is never rendered
        rn = self.render if pos % 2 else None
        if style == 'add':
            if m is None:
                return (p, ep, rn) if rn else (p, ep)
            if m == ['GET']:
                return GET(p, ep, rn)
            if m == ['POST']:
                return POST(p, ep, rn)
            if m == ['get', 'Post']:
                return Route(p, ep, rn, methods=('post', 'GET'))
        if m is None:
            return Route(p, ep, rn, methods=None)
        mine = list(m)
        rt = Route(p, ep, rn, methods=mine)
        mine.append('PUT')        # the list stays the caller's: what happens to it afterwards is not the route's
        return rt

    def bad_entries(self):
        from clastic import Route, Middleware
        from werkzeug.wrappers import Response

        class W(Middleware):
            wsgi_wrapper = 5

        def steal():
            return Response('STOLEN', headers={'X-Marker': 'failed-add'})
        return [Route('/<p*>', steal, middlewares=[W()]), ('/<p*>', lambda nowhere_defined: None)]

    def build(self, table, mode, order=None):
        """order None: constructor list. Otherwise a permutation: insertion order of table positions."""
        from clastic import Application
        if order is None:
            entries = [self.entry(i, d, 'list') for i, d in enumerate(table)]
            app = Application(entries, slash_mode=mode)
            # the caller's list of entries is not the routing table
            entries.insert(0, self.entry(3, (2, 0, 0), 'list'))
            return app
        app = Application([], slash_mode=mode)
        inserted = []
        self.interim = []
        for k, pos in enumerate(order):
            idx = sum(1 for q in inserted if q < pos)
            inserted.append(pos)
            e = self.entry(pos, table[pos], 'add')
            # an add() that fails (here: a middleware whose WSGI wrapper is unusable, on a route that would answer
            # everything first) is not an insertion: the table stays what the successful calls made it
            self.failed_adds = getattr(self, 'failed_adds', 0)
            for bad in self.bad_entries():
                try:
                    app.add(bad, 0)
                except Exception:
                    self.failed_adds += 1
            if idx == len(inserted) - 1 and (k + pos) % 2 == 0:
                app.add(e)            # index=None appends
            else:
                app.add(e, idx)
            if k < len(order) - 1:
                # the application is live while it grows: requests between the add() calls are answered from the
                # table as it is then (recorded here, judged by check_table)
                for path in REQ_PATHS:
                    del self.log[:]
                    res = wsgi.call(app, path, 'GET')
                    self.interim.append((sorted(inserted), path, res, list(self.log)))
        return app


def describe(table):
    return [{'pattern': PATTERNS[p], 'methods': METHODS[m], 'behaviour': BEHAVIOURS[b]} for p, m, b in table]


def compare(exp, res, log):
    """Returns None or (field, message)."""
    if exp['kind'] == 'unspecified':
        return None
    if res.raised is not None:
        return ('raised', 'application raised %r' % (res.raised,))
    if list(log) != list(exp['executed']):
        return ('executed', 'endpoints executed %r, expected %r' % (list(log), exp['executed']))
    k = exp['kind']
    if k == 'redirect':
        if res.code not in (301, 302, 303, 307, 308):
            return ('redirect-status', 'expected a slash redirect, got %r' % res.status)
        loc = res.header('Location') or ''
        from urllib.parse import urlsplit, unquote
        if unquote(urlsplit(loc).path) != exp['location_path']:
            return ('redirect-location', 'Location %r, expected path %r' % (loc, exp['location_path']))
        return None
    if res.code != exp['status']:
        return ('status', 'status %r, expected %r' % (res.status, exp['status']))
    if k == 'route':
        beh_marker = res.header('X-Marker')
        if exp['status'] != 500 and beh_marker != str(exp.get('marker', exp['index'])):
            return ('marker', 'response carries marker %r, expected route %r' % (beh_marker, exp['index']))
    if k == '405':
        allow = res.header('Allow')
        if allow is None:
            return ('allow-missing', '405 without an Allow header (expected %r)' % sorted(exp['allow']))
        got = set(x.strip() for x in allow.split(',') if x.strip())
        if got != set(exp['allow']):
            return ('allow-wrong', 'Allow %r, expected %r' % (sorted(got), sorted(exp['allow'])))
    return None


def check_table(acc, h, table, mode, order, layer):
    desc = describe(table)
    try:
        app = h.build(table, mode, order)
    except Exception as e:
        acc.violation('C06:construct:%s' % type(e).__name__, 'table %r (%s) failed to construct: %r' % (desc, mode, e),
                      {'table': desc, 'mode': mode, 'order': order})
        acc.evaluated += len(REQ_PATHS) * len(REQ_METHODS)      # the requests of this table are decided: all fail
        return
    if order is not None:
        for present, path, res, log in h.interim:
            sub = [desc[i] for i in present]
            exp = D.dispatch(sub, mode, path, 'GET')
            if 'index' in exp:
                exp = dict(exp, index=present[exp['index']])
            exp = dict(exp, executed=[present[i] for i in exp.get('executed', [])])
            acc.transitions += 1
            acc.validated += 1
            bad = compare(exp, res, log)
            if bad:
                acc.violation('C06:%s:%s:while-growing' % (exp['kind'], bad[0]),
                              '%s; partial table %r of %r mode=%s order=%r request=GET %s' % (bad[1], present, desc, mode, order, path),
                              {'table': desc, 'mode': mode, 'order': order, 'path': path, 'method': 'GET',
                               'raw': [list(t) for t in table], 'interim': present})
    for path in REQ_PATHS:
        for method in REQ_METHODS:
            exp = D.dispatch(desc, mode, path, method)
            del h.log[:]
            res = wsgi.call(app, path, method)
            acc.evaluated += 1
            acc.transitions += 1
            acc.validated += 1
            bad = compare(exp, res, h.log)
            okey = '%s:%s:%s' % (exp['kind'], len(exp.get('executed', ())), exp.get('status', '-'))
            acc.outcome(okey)
            if exp['kind'] != '404' or exp.get('executed'):
                acc.add('nontrivial')
            if bad:
                sig = 'C06:%s:%s%s' % (exp['kind'], bad[0], ':via-add' if order is not None else '')
                acc.violation(sig, '%s; table=%r mode=%s order=%r request=%s %s' % (bad[1], desc, mode, order, method, path),
                              {'table': desc, 'mode': mode, 'order': order, 'path': path, 'method': method,
                               'raw': [list(t) for t in table]})


# ---- extra layer: typed binding with an over-long numeral, and a request class that reports the raw method ----
X_ROUTES = [('/<n:int>', None, 'answer'), ('/<n:int>', ['GET'], 'answer'), ('/<n:int>', ['post'], 'nb404r'),
            ('/<x>', None, 'answer'), ('/<x>', ['POST'], 'answer'), ('/<x>', ['get', 'Post'], 'nb403t'),
            ('/t/<name>/', None, 'answer'),
            # bindings named like the options of clastic's HTTP error constructors, on endpoints that fail
            ('/st/<code:int>', None, 'boom'), ('/ib/<is_breaking:int>', None, 'boom'), ('/dt/<detail>', None, 'boom'),
            ('/ib/<is_breaking?int>/x', None, 'nb404r'),
            # routes that decline with a prepared error object (the same object every time)
            ('/<x>', None, 'nbshared'), ('/<x>', ['POST'], 'nbshared'), ('/<x>', None, 'nbshared2')]
X_SHARED = [3, 5, 11, 12, 13]      # indexes into X_ROUTES: the sub-catalogue for tables of three and four routes
X_PATHS = ['/5', '/' + '9' * 5000, '/abc', '/0', '/t/two words/', u'/t/caf\xe9/', '/t/me@example.org',
           '/st/200', '/ib/0', '/dt/text', '/ib/x', '/ib/1/x']
X_METHODS = ['GET', 'get', 'Post', 'POST', 'HEAD', 'head', 'PUT']


def x_tables():
    out = []
    for n in (1, 2):
        for combo in itertools.product(range(len(X_ROUTES)), repeat=n):
            # False: stock; True: raw-method request type; 'profile': behind SimpleProfileMiddleware, every request
            # asks for the profile (?_prof=1) - the report replaces the body, never the routing; 'dev-server' /
            # 'dev-server-absolute': the request line travels through the development server's own parsing, in
            # origin form and in absolute form (GET http://host/path)
            for raw_request in (False, True, 'profile', 'dev-server', 'dev-server-absolute', 'meta-viewed'):
                if raw_request == 'meta-viewed' and n == 2 and (combo[0] + combo[1]) % 3:
                    continue
                out.append((combo, raw_request))
    for n in (3, 4):
        for combo in itertools.product(X_SHARED, repeat=n):
            out.append((combo, False))
    return out


def check_x(acc, h, combo, raw_request):
    from clastic import Application, Route
    from werkzeug.wrappers import Request
    desc = [{'pattern': X_ROUTES[c][0], 'methods': X_ROUTES[c][1], 'behaviour': X_ROUTES[c][2]} for c in combo]

    class RawMethodRequest(Request):
        # an application-supplied request type (Application.request_type) that reports the method as sent
        method = property(lambda self: self.environ['REQUEST_METHOD'], lambda self, v: None)

    class RawApp(Application):
        request_type = RawMethodRequest
    cls = RawApp if raw_request is True else Application
    kw = {}
    if raw_request == 'profile':
        from clastic.middleware import SimpleProfileMiddleware
        kw['middlewares'] = [SimpleProfileMiddleware()]
    routes = [Route(d['pattern'], h.eps[(i, d['behaviour'])], h.render if i % 2 else None, methods=d['methods'])
              for i, d in enumerate(desc)]
    if raw_request == 'meta-viewed':
        # the application carries its meta application and somebody has looked at both of its pages
        from clastic import MetaApplication
        routes.append(('/_meta_zq', MetaApplication()))
    app = cls(routes, **kw)
    if raw_request == 'meta-viewed':
        for mp in ('/_meta_zq/', '/_meta_zq/json/'):
            wsgi.call(app, mp, 'GET')
    for path in X_PATHS:
        for method in X_METHODS:
            exp = D.dispatch(desc, M.REDIRECT, path, method)
            if exp.get('kind') == 'route' and 'index' in exp and desc[exp['index']]['behaviour'].startswith('nbshared'):
                exp = dict(exp, marker=desc[exp['index']]['behaviour'])
            del h.log[:]
            if raw_request == 'profile':
                res = wsgi.call(app, path, method, query='_prof=1')
            elif str(raw_request).startswith('dev-server'):
                if len(path) > 1000 or method != method.upper():
                    acc.evaluated += 1
                    continue          # a request line of that length / a lower-case method is not this seam's business
                env = wsgi.dev_server_environ(path, method, absolute_form=raw_request.endswith('absolute'))
                res = wsgi.call(app, None, environ=env)
            else:
                res = wsgi.call(app, path, method)
            acc.evaluated += 1
            acc.transitions += 1
            acc.validated += 1
            bad = compare(exp, res, h.log)
            acc.outcome('%s:%s:%s' % (exp['kind'], len(exp.get('executed', ())), exp.get('status', '-')))
            acc.add('nontrivial')
            if bad:
                sig = 'C06:%s:%s:%s' % (exp['kind'], bad[0], ('raw-method-request' if raw_request is True else raw_request) if raw_request else 'typed')
                acc.violation(sig, '%s; table=%r request=%s %s' % (bad[1], desc, method, path[:40]),
                              {'x': list(combo), 'raw_request': raw_request, 'path': path, 'method': method})


STATIC_PATHS = ['/static/c06.txt', '/static/missing.txt', '/static/../c06.txt', '/static/sub/../../x', '/static/a//b',
                '/static/.', '/static/%2e%2e/x', '/static/sub', '/static/', '/static']
STATIC_TABLES = ('static-then-route', 'two-statics-then-route', 'static-then-405-then-route')


def check_static(acc):
    """A static application in front of other routes is a route like any other: for a path it does not serve - a
    missing file, a directory, or a path it refuses to look up - the search moves on to the routes after it."""
    import tempfile, shutil
    from clastic import Application, Route, POST
    from clastic.static import StaticApplication
    from werkzeug.wrappers import Response
    d = tempfile.mkdtemp(prefix='c06-static-')
    try:
        os.mkdir(os.path.join(d, 'sub'))
        with open(os.path.join(d, 'c06.txt'), 'w') as f:
            f.write('file-content')
        log = []

        def later(p):
            log.append(p)
            return Response('later', headers={'X-Marker': 'later'})
        for tname in STATIC_TABLES:
            routes = [('/static', StaticApplication(d))]
            if tname == 'two-statics-then-route':
                routes.append(('/static', StaticApplication(os.path.join(d, 'sub'))))
            if tname == 'static-then-405-then-route':
                routes.append(POST('/static/<p*>', later))
            routes.append(Route('/static/<p*>', later))
            app = Application(routes)
            for path in STATIC_PATHS:
                acc.evaluated += 1
                acc.transitions += 1
                acc.validated += 1
                acc.add('nontrivial')
                del log[:]
                if '%' in path:
                    res = wsgi.call(app, None, environ=wsgi.dev_server_environ(path, 'GET'))
                else:
                    res = wsgi.call(app, path, 'GET')
                case = {'static': tname, 'path': path}
                served = path == '/static/c06.txt'
                acc.outcome('static:%s' % ('file' if served else 'falls-through'))
                if res.raised is not None:
                    acc.violation('C06:static:raised', 'request %s raised %r' % (path, res.raised), case)
                elif served:
                    if res.code != 200 or res.body != b'file-content' or log:
                        acc.violation('C06:static:file', 'the file is not served first: %s %r, later route ran %r' % (res.status, res.body[:40], log), case)
                elif path in ('/static',):
                    pass      # the branch redirect of the mount point itself
                elif res.code != 200 or res.header('X-Marker') != 'later' or len(log) != 1:
                    acc.violation('C06:static:no-fallthrough', 'table %s: GET %s is not served by the static application, the route '
                                  'after it must answer; got %s, later route ran %d time(s)' % (tname, path, res.status, len(log)), case)
    finally:
        shutil.rmtree(d, ignore_errors=True)


def nshards(tier):
    return 32 if tier == 'quick' else 64


def shard(tier, i, n, seed):
    common.setup_repo()
    acc = common.Acc()
    h = Harness()
    if i == 1:
        check_static(acc)
    for name, cat, ns, modes, with_add in layers(tier):
        size = layer_size(cat, ns, modes)
        for idx in range(i, size, n):
            if idx % 64 == i % 64 and deadline_passed():
                acc.extra['cap_hit'] = 1
                return acc
            mode, table = table_at(cat, ns, modes, idx)
            check_table(acc, h, table, mode, None, name)
            acc.add('tables')
            if with_add and len(table) >= 1:
                for order in itertools.permutations(range(len(table))):
                    check_table(acc, h, table, mode, list(order), name)
                    acc.add('tables')
            if idx % 5003 == 0:
                acc.sample({'layer': name, 'mode': mode, 'table': describe(table),
                            'requests': len(REQ_PATHS) * len(REQ_METHODS)})
    for k, (combo, raw_request) in enumerate(x_tables()):
        if k % n == i:
            check_x(acc, h, combo, raw_request)
            acc.add('tables')
    return acc


def space_size(tier):
    total = 0
    nreq = len(REQ_PATHS) * len(REQ_METHODS)
    for name, cat, ns, modes, with_add in layers(tier):
        for nn in ns:
            t = len(cat) ** nn * len(modes)
            mult = 1
            if with_add and nn >= 1:
                f = 1
                for k in range(2, nn + 1):
                    f *= k
                mult += f
            total += t * mult * nreq
    total += len(x_tables()) * len(X_PATHS) * len(X_METHODS)
    total += len(STATIC_TABLES) * len(STATIC_PATHS)
    return total


def finish(tier, merged, results):
    oc = merged['outcomes']
    if not merged['violations']:
        kinds = set(k.split(':')[0] for k in oc)
        for need in ('route', 'redirect', '404', '405'):
            if need not in kinds:
                raise common.InternalError('vacuous: expected kind %s never occurred' % need)
        if not any(k.startswith('route:2') or k.startswith('route:3') for k in oc):
            raise common.InternalError('vacuous: no fall-through chain observed')
    b = {}
    for name, cat, ns, modes, with_add in layers(tier):
        b[name] = {'route_catalogue': len(cat), 'routes_per_table': ns, 'modes': modes, 'all_add_orders': with_add,
                   'tables': layer_size(cat, ns, modes)}
    b['requests_per_table'] = len(REQ_PATHS) * len(REQ_METHODS)
    b['X'] = {'tables': len(x_tables()), 'routes': X_ROUTES, 'paths': [p[:12] for p in X_PATHS], 'methods': X_METHODS}
    return {'space_size': space_size(tier), 'bounds': b,
            'distinct_nontrivial': len(oc),
            'coverage': {'tables_built': merged['extra'].get('tables', 0),
                         'nontrivial_requests': merged['extra'].get('nontrivial', 0)}}


def replay(case):
    common.setup_repo()
    acc = common.Acc()
    h = Harness()
    if 'static' in case:
        check_static(acc)
        bad = [v for v in acc.violations if v['case'] == case]
        return (False, bad[0]['desc']) if bad else (True, 'ok')
    if 'x' in case:
        check_x(acc, h, tuple(case['x']), case['raw_request'])
        bad = [v for v in acc.violations if v['case']['path'] == case['path'] and v['case']['method'] == case['method']]
        return (False, bad[0]['desc']) if bad else (True, 'ok')
    table = [tuple(t) for t in case['raw']]
    desc = describe(table)
    app = h.build(table, case['mode'], case.get('order'))
    exp = D.dispatch(desc, case['mode'], case['path'], case['method'])
    del h.log[:]
    res = wsgi.call(app, case['path'], case['method'])
    bad = compare(exp, res, h.log)
    if bad:
        return False, '%s (expected %r; got %r, executed %r)' % (bad[1], exp, res.brief(), list(h.log))
    return True, 'ok'
