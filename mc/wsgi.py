# -*- coding: utf-8 -*-
"""Tiny WSGI driver used by all harnesses: builds an environ by hand (no
werkzeug test client in the way) and records exactly what the application
does with start_response and the body iterable."""
import io
import sys


def make_environ(path, method='GET', query='', headers=None, body=b'', raw_path=False):
    """`path` is the *decoded* path (unicode); it is put into PATH_INFO the way a
    WSGI server would (utf-8 bytes presented as latin-1)."""
    if not raw_path:
        path_info = path.encode('utf-8').decode('latin-1')
    else:
        path_info = path
    env = {
        'REQUEST_METHOD': method,
        'SCRIPT_NAME': '',
        'PATH_INFO': path_info,
        'QUERY_STRING': query,
        'SERVER_NAME': 'localhost',
        'SERVER_PORT': '80',
        'HTTP_HOST': 'localhost',
        'SERVER_PROTOCOL': 'HTTP/1.1',
        'wsgi.version': (1, 0),
        'wsgi.url_scheme': 'http',
        'wsgi.input': io.BytesIO(body),
        'wsgi.errors': sys.stderr,
        'wsgi.multithread': False,
        'wsgi.multiprocess': False,
        'wsgi.run_once': False,
    }
    if body:
        env['CONTENT_LENGTH'] = str(len(body))
    for k, v in (headers or {}).items():
        key = k.upper().replace('-', '_')
        if key in ('CONTENT_TYPE', 'CONTENT_LENGTH'):
            env[key] = v
        else:
            env['HTTP_' + key] = v
    return env


class Result(object):
    __slots__ = ('status', 'code', 'headers', 'body', 'sr_calls', 'raised', 'closed', 'chunks')

    def header(self, name, default=None):
        name = name.lower()
        for k, v in self.headers or ():
            if k.lower() == name:
                return v
        return default

    def header_all(self, name):
        name = name.lower()
        return [v for k, v in self.headers or () if k.lower() == name]

    def brief(self):
        return {'status': self.status, 'headers': list(self.headers or ())[:12], 'body': (self.body or b'')[:200],
                'raised': repr(self.raised) if self.raised else None}


def call(app, path, method='GET', query='', headers=None, body=b'', environ=None, catch=True):
    env = environ if environ is not None else make_environ(path, method, query, headers, body)
    res = Result()
    res.status = None
    res.code = None
    res.headers = None
    res.body = None
    res.sr_calls = 0
    res.raised = None
    res.closed = None
    res.chunks = 0
    calls = []

    def start_response(status, hdrs, exc_info=None):
        calls.append((status, hdrs))
        return lambda data: None

    try:
        it = app(env, start_response)
        try:
            chunks = []
            for c in it:
                chunks.append(c)
            res.chunks = len(chunks)
            res.body = b''.join(chunks)
        finally:
            close = getattr(it, 'close', None)
            if close is not None:
                close()
                res.closed = True
    except Exception as e:
        if not catch:
            raise
        res.raised = e
    res.sr_calls = len(calls)
    if calls:
        res.status, res.headers = calls[-1]
        try:
            res.code = int(res.status.split(' ', 1)[0])
        except Exception:
            res.code = None
    return res



class _FakeServer(object):
    ssl_context = None
    multithread = False
    multiprocess = False
    server_address = ('localhost', 80)
    shutdown_signal = False


def dev_server_environ(raw_path, method, query='', absolute_form=False, headers=None, safe='/+', server=None):
    """The environ clastic's own development server builds (clastic/_werkzeug_serving.py, its request handler's
    make_environ) for the request line `<method> <percent-encoded path>[?query] HTTP/1.1`."""
    import io
    import http.client
    from urllib.parse import quote
    from clastic._werkzeug_serving import WSGIRequestHandler
    hd = WSGIRequestHandler.__new__(WSGIRequestHandler)
    hd.server = server if server is not None else _FakeServer()
    hd.command = method
    hd.request_version = 'HTTP/1.1'
    hd.client_address = ('127.0.0.1', 50000)
    hd.rfile = io.BytesIO(b'')
    hd.headers = http.client.HTTPMessage()
    hd.headers['Host'] = 'localhost'
    for k, v in (headers or {}).items():
        del hd.headers[k]
        hd.headers[k] = v
    target = quote(raw_path.encode('utf-8'), safe=safe) + ('?' + query if query else '')
    hd.path = ('http://localhost' + target) if absolute_form else target
    env = hd.make_environ()
    env.setdefault('wsgi.errors', io.StringIO())
    return env


class DevServer(object):
    """One real server object of clastic's development server (bound to an ephemeral loopback port, never serving):
    the environs of several requests are built against the *same* server, as they are in a running process."""
    def __init__(self, app, threaded=False):
        from clastic._werkzeug_serving import make_server
        self.server = make_server('127.0.0.1', 0, app, threaded=threaded)

    def environ(self, raw_path, method='GET', query='', headers=None, safe='/+'):
        return dev_server_environ(raw_path, method, query, headers=headers, safe=safe, server=self.server)

    def close(self):
        self.server.server_close()


class _FakeSocket(object):
    def __init__(self, data):
        import io
        self._in = io.BytesIO(data)
        self.out = io.BytesIO()

    def makefile(self, mode='rb', *a, **kw):
        if 'r' in mode:
            return self._in
        out = self.out

        class _W(object):
            def write(self, b):
                out.write(b)
                return len(b)

            def flush(self):
                pass

            def close(self):
                pass
            closed = False
        return _W()

    def sendall(self, b):
        self.out.write(b)

    def settimeout(self, t):
        pass

    def setsockopt(self, *a):
        pass

    def getsockname(self):
        return ('127.0.0.1', 80)

    def shutdown(self, *a):
        pass

    def close(self):
        pass


def dev_server_exchange(server, raw_request):
    """Run the development server's request handler over the raw bytes of one connection (request line, headers,
    body) against `server` (a DevServer) without a socket: returns (status code or None, header text, body bytes)."""
    import io
    from clastic._werkzeug_serving import WSGIRequestHandler
    sock = _FakeSocket(raw_request)
    old_err = sys.stderr
    sys.stderr = io.StringIO()       # the handler logs every request there
    try:
        WSGIRequestHandler(sock, ('127.0.0.1', 50000), server.server)
    finally:
        sys.stderr = old_err
    data = sock.out.getvalue()
    head, _, body = data.partition(b'\r\n\r\n')
    lines = head.split(b'\r\n')
    try:
        code = int(lines[0].split(b' ')[1])
    except Exception:
        code = None
    return code, head.decode('latin-1'), body

