# -*- coding: utf-8 -*-
"""E3 - stateless, preemption-bounded exploration of real threads.

Real `threading.Thread`s execute the code under test; exactly one of them is
runnable at a time (the others block on a per-thread semaphore).  The
scheduler is consulted before every non-thread-local bytecode instruction of
the *instrumented* code objects (sys.monitoring INSTRUCTION events, enabled
per code object), so an interleaving is a sequence of choices "keep running"
/ "switch to thread t".  Exploration is CHESS-style iterative context
bounding: all executions with at most `bound` preemptions (a switch away
from a thread that could have continued); choices at thread start/finish are
free.  A prefix is replayed on fresh threads; the identity of every
scheduling point reached while replaying is compared with the recording and
any divergence is a hard error (never a verdict).
"""
import dis
import gc
import sys
import threading
import types

# instructions that touch only the frame's own locals / stack / constants commute with everything
LOCAL_OPS = set([
    'LOAD_FAST', 'STORE_FAST', 'LOAD_CONST', 'POP_TOP', 'RESUME', 'RETURN_CONST', 'RETURN_VALUE', 'COPY', 'SWAP',
    'PUSH_NULL', 'NOP', 'JUMP_FORWARD', 'JUMP_BACKWARD', 'JUMP_BACKWARD_NO_INTERRUPT', 'POP_JUMP_IF_FALSE',
    'POP_JUMP_IF_TRUE', 'POP_JUMP_IF_NONE', 'POP_JUMP_IF_NOT_NONE', 'LOAD_FAST_CHECK', 'LOAD_FAST_AND_CLEAR', 'KW_NAMES',
    'MAKE_FUNCTION', 'UNARY_NOT', 'CACHE', 'EXTENDED_ARG', 'PUSH_EXC_INFO', 'POP_EXCEPT', 'RERAISE', 'CHECK_EXC_MATCH',
    'DELETE_FAST', 'COPY_FREE_VARS', 'MAKE_CELL', 'END_FOR', 'INTERPRETER_EXIT', 'SETUP_ANNOTATIONS', 'RETURN_GENERATOR',
])


class Divergence(Exception):
    pass


class Hang(Exception):
    pass


_MON = sys.monitoring
_TID = _MON.DEBUGGER_ID
_state = {'run': None, 'vis': {}, 'registered': False, 'codes': set()}


def _on_instruction(code, offset):
    run = _state['run']
    if run is None:
        return
    me = run.idx.get(threading.get_ident())
    if me is None:
        return
    pid = _state['vis'].get((code, offset))
    if pid is None:
        return _MON.DISABLE       # a thread-local instruction: never a scheduling point, stop reporting it
    if run.used >= run.bound:
        return                    # preemption budget used up: no scheduling point can branch any more
    run.point(me, pid)


def walk_code(co, out):
    if co in out:
        return
    out.add(co)
    for c in co.co_consts:
        if isinstance(c, types.CodeType):
            walk_code(c, out)


def collect_codes(predicate):
    """All code objects of live functions whose co_filename satisfies predicate (incl. nested code)."""
    out = set()
    for obj in gc.get_objects():
        if isinstance(obj, types.FunctionType):
            co = obj.__code__
            if predicate(co.co_filename):
                walk_code(co, out)
    return out


def instrument(codes):
    """Enable instruction events for these code objects (idempotent) and index their visible points."""
    if not _state['registered']:
        _MON.use_tool_id(_TID, 'clastic-verif-sched')
        _MON.register_callback(_TID, _MON.events.INSTRUCTION, _on_instruction)
        _state['registered'] = True
    vis = _state['vis']
    new = 0
    for co in codes:
        if co in _state['codes']:
            continue
        _state['codes'].add(co)
        for ins in dis.get_instructions(co):
            if ins.opname not in LOCAL_OPS:
                vis[(co, ins.offset)] = (co.co_filename.rsplit('/', 1)[-1], co.co_name, ins.offset)
                new += 1
        _MON.set_local_events(_TID, co, _MON.events.INSTRUCTION)
    return new


class Run(object):
    def __init__(self, n, prefix, recorded, bound=1 << 30):
        self.n = n
        # once `used` preemptions reach `bound` no scheduling point can branch any more; points are then
        # neither recorded nor counted (free choices at thread start/exit still are).  `used` evolves
        # identically in a parent execution and in the replay of its prefix, so indices stay aligned.
        self.bound = bound
        self.used = 0
        self.sems = [threading.Semaphore(0) for _ in range(n)]
        self.done = [False] * n
        self.prefix = prefix
        self.recorded = recorded      # point ids recorded by the parent execution for the prefix part
        self.choices = []
        self.widths = []
        self.kinds = []               # 'p' = preemption if alternative taken, 'f' = free choice
        self.pids = []
        self.main = threading.Semaphore(0)
        self.err = None
        self.idx = {}
        self.npoints = 0

    def pick(self, enabled, kind, pid):
        k = len(self.choices)
        if k < len(self.prefix):
            c = self.prefix[k]
            if c >= len(enabled) or (self.recorded is not None and self.recorded[k] != pid):
                if self.err is None:
                    self.err = 'replay divergence at choice %d: recorded %r, now %r (width %d, choice %d)' % (
                        k, self.recorded[k] if self.recorded else None, pid, len(enabled), c)
                c = 0
        else:
            c = 0
        if c and kind == 'p':
            self.used += 1
        self.choices.append(c)
        self.widths.append(len(enabled))
        self.kinds.append(kind)
        self.pids.append(pid)
        return enabled[c]

    def point(self, me, pid):
        others = [t for t in range(self.n) if t != me and not self.done[t]]
        if not others:
            return
        self.npoints += 1
        nxt = self.pick([me] + others, 'p', pid)
        if nxt != me:
            self.sems[nxt].release()
            self.sems[me].acquire()

    def finish(self, me):
        self.done[me] = True
        rest = [t for t in range(self.n) if not self.done[t]]
        if rest:
            nxt = self.pick(rest, 'f', ('finish', me)) if len(rest) > 1 else rest[0]
            self.sems[nxt].release()
        else:
            self.main.release()


def run_once(bodies, prefix, recorded=None, timeout=30.0, bound=1 << 30, before=None):
    n = len(bodies)
    if before is not None:
        before()      # history common to all executions: runs on the calling thread, outside the scheduler
    run = Run(n, prefix, recorded, bound)
    results = [None] * n

    def body(i):
        run.idx[threading.get_ident()] = i
        run.sems[i].acquire()
        try:
            results[i] = ('ok', bodies[i]())
        except BaseException as e:   # noqa - a thread body must never escape
            results[i] = ('exc', repr(e))
        finally:
            run.finish(i)
    threads = [threading.Thread(target=body, args=(i,)) for i in range(n)]
    _state['run'] = run
    try:
        for t in threads:
            t.start()
        first = run.pick(list(range(n)), 'f', ('start',)) if n > 1 else 0
        run.sems[first].release()
        if not run.main.acquire(timeout=timeout):
            raise Hang('execution did not finish within %.0fs (prefix %r)' % (timeout, prefix))
        for t in threads:
            t.join()
    finally:
        _state['run'] = None
    if run.err:
        raise Divergence(run.err)
    return run, results


def explore(bodies, bound, on_execution, max_executions=None, first_choices=None, should_stop=None, before=None):
    """Enumerate all executions with <= bound preemptions (depth-first over choice prefixes).

    on_execution(run, results) is called for every complete execution.
    first_choices: optional iterable restricting the alternatives of the *first* preemptive deviation to a
    shard of the points (used to spread bound-2 exploration over processes): a function
    (index_of_choice) -> bool.
    Returns dict(executions, points_max, capped)."""
    stack = [([], None, 0)]
    execs = 0
    capped = False
    pmax = 0
    while stack:
        prefix, recorded, used = stack.pop()
        run, results = run_once(bodies, prefix, recorded, bound=bound, before=before)
        execs += 1
        pmax = max(pmax, run.npoints)
        on_execution(run, results)
        if max_executions is not None and execs >= max_executions:
            capped = True
            break
        if should_stop is not None and execs % 64 == 0 and should_stop():
            capped = True
            break
        for i in range(len(prefix), len(run.choices)):
            w = run.widths[i]
            if w < 2:
                continue
            cost = 1 if run.kinds[i] == 'p' else 0
            if used + cost > bound:
                continue
            if first_choices is not None and used == 0 and cost == 1 and not first_choices(i):
                continue
            for alt in range(1, w):
                stack.append((run.choices[:i] + [alt], run.pids[:i + 1], used + cost))
    return {'executions': execs, 'points_max': pmax, 'capped': capped}
