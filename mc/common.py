# -*- coding: utf-8 -*-
"""Shared plumbing: locate the repository under test, import clastic from it,
small helpers used by every property module."""
import os
import sys
import warnings

VERIF = os.path.dirname(os.path.dirname(os.path.abspath(__file__)))
REPO = os.path.realpath(os.environ.get('VERIF_REPO') or '/repo')
GUARD = 'CLASTIC_VERIF'


class InternalError(Exception):
    """Harness problem (not a verdict about clastic): exit status 2."""


def setup_repo():
    """Make `import clastic` resolve to the working tree under test."""
    os.environ.setdefault(GUARD, '1')
    sys.dont_write_bytecode = True
    warnings.simplefilter('ignore')
    if VERIF not in sys.path:
        sys.path.insert(0, VERIF)
    if sys.path[0] != REPO:
        sys.path.insert(0, REPO)
    import clastic
    f = os.path.realpath(clastic.__file__)
    if not f.startswith(REPO + os.sep):
        raise InternalError('clastic imported from %s, not from %s' % (f, REPO))
    return clastic


def seed():
    try:
        return int(os.environ.get('VERIF_SEED', '0'))
    except ValueError:
        return 0


def mixed_radix(index, radices):
    """index -> tuple of digits (least significant first radix first)."""
    out = []
    for r in radices:
        out.append(index % r)
        index //= r
    return tuple(out)


def product_size(radices):
    n = 1
    for r in radices:
        n *= r
    return n


class Acc(object):
    """Accumulator a shard fills in and returns (as a plain dict)."""

    def __init__(self, max_viol=40, max_samples=6):
        self.evaluated = 0       # elements (configurations / pairs / histories)
        self.transitions = 0     # operations executed on the real code
        self.validated = 0       # reference predictions compared with the implementation
        self.outcomes = {}       # outcome class -> count
        self.violations = []     # dicts: sig, desc, case
        self.viol_count = 0
        self.samples = []
        self.extra = {}
        self._mv = max_viol
        self._ms = max_samples
        self._sigs = {}

    def outcome(self, key, n=1):
        self.outcomes[key] = self.outcomes.get(key, 0) + n

    def sample(self, s):
        if len(self.samples) < self._ms:
            self.samples.append(s)

    def violation(self, sig, desc, case):
        self.viol_count += 1
        k = self._sigs.get(sig, 0)
        self._sigs[sig] = k + 1
        # keep at most 3 per signature so that rare signatures are not crowded out
        if (k < 3 and len(self.violations) < self._mv * 4) or (k == 0 and len(self.violations) < 5000):
            self.violations.append({'sig': sig, 'desc': desc, 'case': case})

    def add(self, key, n=1):
        self.extra[key] = self.extra.get(key, 0) + n

    def as_dict(self):
        return {'evaluated': self.evaluated, 'transitions': self.transitions,
                'validated': self.validated, 'outcomes': self.outcomes,
                'violations': self.violations, 'viol_count': self.viol_count,
                'sig_counts': self._sigs, 'samples': self.samples, 'extra': self.extra}


def merge(results):
    out = {'evaluated': 0, 'transitions': 0, 'validated': 0, 'outcomes': {},
           'violations': [], 'viol_count': 0, 'sig_counts': {}, 'samples': [], 'extra': {}}
    for r in results:
        for k in ('evaluated', 'transitions', 'validated', 'viol_count'):
            out[k] += r.get(k, 0)
        for k, v in r.get('outcomes', {}).items():
            out['outcomes'][k] = out['outcomes'].get(k, 0) + v
        for k, v in r.get('sig_counts', {}).items():
            out['sig_counts'][k] = out['sig_counts'].get(k, 0) + v
        for k, v in r.get('extra', {}).items():
            if isinstance(v, (int, float)):
                out['extra'][k] = out['extra'].get(k, 0) + v
            elif isinstance(v, list):
                out['extra'].setdefault(k, []).extend(v)
            elif isinstance(v, dict):
                d = out['extra'].setdefault(k, {})
                for kk, vv in v.items():
                    d[kk] = d.get(kk, 0) + vv if isinstance(vv, (int, float)) else vv
            else:
                out['extra'][k] = v
        out['violations'].extend(r.get('violations', []))
        if len(out['samples']) < 8:
            out['samples'].extend(r.get('samples', [])[:2])
    return out


def fresh_str(s):
    """An equal but distinct (non-interned) string object - what a mode read from a config file looks like."""
    if s is None:
        return None
    return ''.join(list(s))


TZS = ('UTC', 'EST5', 'JST-9')      # POSIX forms: no zoneinfo database needed


def set_tz(k):
    """The server process's time zone is part of the environment: shards rotate through three of them."""
    import os
    import time
    tz = TZS[k % len(TZS)]
    os.environ['TZ'] = tz
    time.tzset()
    return tz
