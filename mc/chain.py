# -*- coding: utf-8 -*-
"""Synthesises real clastic applications from the configuration DSL of
ref/bind.py and records, per request, what every function in the chain was
called with and what it returned / raised.  Used by C01, C02, C03, C04."""
from mc import common

PHASES = ('request', 'endpoint', 'render')
PROVIDES_ATTR = {'request': 'provides', 'endpoint': 'endpoint_provides', 'render': 'render_provides'}


class Tok(object):
    """Unique sentinel value; compared by identity only."""
    __slots__ = ('name',)

    def __init__(self, name):
        self.name = name

    def __repr__(self):
        return '<%s>' % self.name


class Boom(Exception):
    pass


def signature(params, lead=()):
    """Python parameter list for [(name, role)...]; `lead` are leading plain names (self, next)."""
    pos = [n for n, r in params if r == 'pos']
    req = [n for n, r in params if r == 'req']
    dfl = [n for n, r in params if r == 'def']
    kwr = [n for n, r in params if r == 'kwreq']
    kwd = [n for n, r in params if r == 'kwdef']
    parts = list(lead)
    if pos:
        parts += pos + ['/']
    parts += req
    return parts, dfl, kwr, kwd


def make_source(fname, fid, params, lead, next_name):
    parts, dfl, kwr, kwd = signature(params, lead)
    sig = list(parts) + ['%s=_D[%r]' % (n, '%s:%s' % (fid, n)) for n in dfl]
    if kwr or kwd:
        sig.append('*')
        sig += kwr
        sig += ['%s=_D[%r]' % (n, '%s:%s' % (fid, n)) for n in kwd]
    names = [n for n, r in params]
    argdict = '{' + ', '.join('%r: %s' % (n, n) for n in names) + '}'
    body = '_H.call(%r, %s, %s)' % (fid, argdict, next_name or 'None')
    return sig, body


class _OneShot(object):
    """An iterable that can be iterated exactly once (like a generator), usable wherever the harness passes
    middlewares=."""

    def __init__(self, items):
        self._it = iter(list(items))

    def __iter__(self):
        return self._it


class Harness(object):
    def __init__(self):
        common.setup_repo()
        from werkzeug.wrappers import Response
        self.Response = Response
        self.trace = []
        self.objs = []
        self.scripts = {}
        self.prov = {}
        self.callstyle = {}
        self.defaults = {}
        self.vals = {}
        self.ep_result = 'response'
        self.persistent_types = {}

    # ---- object tagging -------------------------------------------------
    def tag(self, obj):
        for i, o in enumerate(self.objs):
            if o is obj:
                return i
        self.objs.append(obj)
        return len(self.objs) - 1

    def reset(self):
        del self.trace[:]
        del self.objs[:]

    # ---- behaviour of every synthesised function ----------------------------
    def call(self, fid, args, nxt):
        tr = self.trace
        tr.append(('enter', fid, args))
        script = self.scripts.get(fid, 'pass')
        if nxt is None:
            return self._leaf(fid, script, args)
        if script == 'raise_before':
            e = Boom(fid)
            tr.append(('leave', fid, 'raise', self.tag(e)))
            raise e
        if script == 'early':
            r = self.Response('early:' + fid)
            tr.append(('leave', fid, 'return', self.tag(r)))
            return r
        pv = self.prov.get(fid, ())
        try:
            if self.callstyle.get(fid, 'kw') == 'pos':
                r = nxt(*[v for n, v in pv])
            else:
                r = nxt(**dict(pv))
        except Exception as e:
            tr.append(('next_raised', fid, self.tag(e)))
            if script == 'swallow':
                r = self.Response('swallowed:' + fid)
                tr.append(('leave', fid, 'return', self.tag(r)))
                return r
            tr.append(('leave', fid, 'raise', self.tag(e)))
            raise
        tr.append(('next_returned', fid, self.tag(r)))
        if script == 'raise_after':
            e = Boom(fid)
            tr.append(('leave', fid, 'raise', self.tag(e)))
            raise e
        if script == 'replace':
            r = self.Response('replaced:' + fid)
        tr.append(('leave', fid, 'return', self.tag(r)))
        return r

    def _leaf(self, fid, script, args):
        tr = self.trace
        if script == 'raise' or script == 'raise_before':
            e = Boom(fid)
            tr.append(('leave', fid, 'raise', self.tag(e)))
            raise e
        if fid in ('sib', 'late'):
            kind = 'response'
        elif fid == 'ep':
            kind = script if script != 'pass' else self.ep_result
        else:
            kind = 'response' if script == 'pass' else script
        if kind == 'response':
            r = self.Response('resp:' + fid)
        elif kind == 'context':
            r = {'ctx': fid}
        elif kind == 'httpexc':
            from clastic.errors import Conflict
            r = Conflict('returned by ' + fid)
        elif kind == 'raise_httpexc':
            from clastic.errors import Conflict
            e = Conflict('raised by ' + fid)
            tr.append(('leave', fid, 'raise', self.tag(e)))
            raise e
        else:
            r = self.Response('resp:' + fid)
        tr.append(('leave', fid, 'return', self.tag(r)))
        return r

    # ---- synthesis -------------------------------------------------------
    def _ns(self):
        return {'_H': self, '_D': self.defaults}

    def _register_defaults(self, fid, params):
        for n, r in params:
            if r in ('def', 'kwdef'):
                self.defaults['%s:%s' % (fid, n)] = Tok('default:%s:%s' % (fid, n))

    def make_callable(self, fid, f, kind='func'):
        params = [(p[0], p[1]) for p in f['params']]
        self._register_defaults(fid, params)
        ns = self._ns()
        if kind == 'lambda':
            sig, body = make_source('f', fid, params, (), None)
            exec('f = lambda %s: %s' % (', '.join(sig), body), ns)
            return ns['f']
        if kind in ('func', 'decorated'):
            sig, body = make_source('f', fid, params, (), None)
            exec('def f(%s):\n    return %s\n' % (', '.join(sig), body), ns)
            if kind == 'func':
                return ns['f']
            from clastic.decorators import clastic_decorator

            @clastic_decorator
            def deco(func):
                def wrapper(*a, **kw):
                    return func(*a, **kw)
                return wrapper
            return deco(ns['f'])
        if kind == 'wrapped':
            # a functools.wraps wrapper with a signature of its own, around a function clastic has inspected before
            # (it served as an endpoint elsewhere): only the wrapper's own parameters count
            import functools
            from clastic import Application
            exec('def orig(request):\n    return None\n', ns)
            Application([('/inspected-before', ns['orig'])])
            ns['functools'] = functools
            sig, body = make_source('f', fid, params, (), None)
            exec('@functools.wraps(orig)\ndef f(%s):\n    return %s\n' % (', '.join(sig), body), ns)
            return ns['f']
        if kind in ('method', 'callable'):
            sig, body = make_source('m', fid, params, ('self',), None)
            mname = 'm' if kind == 'method' else '__call__'
            exec('class K(object):\n    def %s(%s):\n        return %s\n' % (mname, ', '.join(sig), body), ns)
            obj = ns['K']()
            return obj.m if kind == 'method' else obj
        if kind == 'static':
            sig, body = make_source('m', fid, params, (), None)
            exec('class K(object):\n    @staticmethod\n    def m(%s):\n        return %s\n' % (', '.join(sig), body), ns)
            return ns['K'].m
        if kind == 'classm':
            sig, body = make_source('m', fid, params, ('cls',), None)
            exec('class K(object):\n    @classmethod\n    def m(%s):\n        return %s\n' % (', '.join(sig), body), ns)
            return ns['K'].m
        raise ValueError(kind)

    def make_middleware(self, i, m, types):
        from clastic import Middleware
        ns = self._ns()
        lines = []
        for ph in PHASES:
            f = m.get(ph)
            if not f:
                continue
            fid = 'm%d.%s' % (i, ph)
            params = [(p[0], p[1]) for p in f['params']]
            self._register_defaults(fid, params)
            next_at = f.get('next_at', 0)
            if next_at == 0:
                lead = ('self', 'next')
                nxt = 'next'
            elif next_at is None:          # function does not take next at all
                lead = ('self',)
                nxt = 'None'
            else:                          # next is not the first parameter
                lead = ('self',)
                params = params[:next_at] + [('next', 'req')] + params[next_at:]
                nxt = 'next'
            sig, body = make_source(ph, fid, [p for p in params if p[0] != 'next' or next_at], lead, nxt)
            lines.append('    def %s(%s):\n        return %s\n' % (ph, ', '.join(sig), body))
            self.prov[fid] = [(n, self.value(('mw', i, ph, n))) for n in m.get(PROVIDES_ATTR[ph], [])]
            self.callstyle[fid] = m.get('call', 'kw')
            if f.get('script'):
                self.scripts[fid] = f['script']
        tname = m.get('type', 'T%d' % i)
        tkey = (tname, bool(m.get('unique', True)), bool(m.get('reorderable', True)))
        base = types.get(tkey)
        if base is None:
            parent = Middleware
            if m.get('parent'):
                # a middleware type that *inherits* from another declared type (still a different type)
                pkey = (m['parent'], True, True)
                parent = types.get(pkey)
                if parent is None:
                    exec('class %s(Middleware):\n    unique = True\n    reorderable = True\n' % m['parent'],
                         dict(Middleware=Middleware), ns)
                    parent = types[pkey] = ns[m['parent']]
            exec('class %s(Parent):\n    unique = %r\n    reorderable = %r\n'
                 % (tname, bool(m.get('unique', True)), bool(m.get('reorderable', True))), dict(Parent=parent), ns)
            base = types[tkey] = ns[tname]
        ns['Base'] = base
        src = 'class Inst(Base):\n' + (''.join(lines) or '    pass\n')
        exec(src, ns)
        cls = ns['Inst']
        cls.__name__ = tname
        # instances of one declared type must be type-equal (clastic compares middleware *types*)
        inst = base.__new__(base)
        for ph in PHASES:
            if m.get(ph):
                setattr(inst, ph, getattr(cls, ph).__get__(inst, base))
        for ph in PHASES:
            if PROVIDES_ATTR[ph] in m:
                setattr(inst, PROVIDES_ATTR[ph], tuple(m[PROVIDES_ATTR[ph]]))
        inst._idx = i
        return inst

    def value(self, key):
        v = self.vals.get(key)
        if v is None:
            if key[0] == 'url':
                v = 'u_' + key[1]
            else:
                v = Tok(':'.join(str(k) for k in key))
            self.vals[key] = v
        return v

    def decoy_entries(self, cfg, decoys):
        """Routes placed *before* the real route that match the same paths, bind the injectable names to
        wrong values and are then skipped (method mismatch / non-breaking error)."""
        from clastic import Route
        from clastic.errors import NotFound
        from werkzeug.wrappers import Response
        out = []
        for kind, name in decoys or ():
            if kind == 'method':
                out.append(Route('/<%s*>' % name, lambda: Response('decoy'), methods=['PUT']))
            else:
                def nb(_h=self):
                    _h.trace.append(('decoy-executed',))
                    raise NotFound(is_breaking=False)
                out.append(Route('/<%s*>' % name, nb))
        return out

    def build(self, cfg, error_handler=None, construct='list', decoys=None, reuse_types=False):
        """Returns the serving application.  Raises whatever clastic raises."""
        from clastic import Application, Route, SubApplication
        self.scripts.clear()
        self.prov.clear()
        self.callstyle.clear()
        self.defaults.clear()
        self.vals.clear()
        # reuse_types: middleware classes persist across builds of this harness, so that a valid instance of a
        # class can be followed by a malformed instance of the very same class (history dependence)
        types = self.persistent_types if reuse_types else {}
        insts = []
        for i, m in enumerate(cfg['mws']):
            if m.get('same_as') is not None:
                insts.append(insts[m['same_as']])     # the very same object placed again
            else:
                insts.append(self.make_middleware(i, m, types))
        self.insts = insts
        ep = self.make_callable('ep', cfg['endpoint'], cfg['endpoint'].get('kind', 'func'))
        if cfg['endpoint'].get('script'):
            self.scripts['ep'] = cfg['endpoint']['script']
        rn = None
        if cfg.get('render'):
            rn = self.make_callable('rn', cfg['render'], cfg['render'].get('kind', 'func'))
            if cfg['render'].get('script'):
                self.scripts['rn'] = cfg['render']['script']
        self.ep_result = 'context' if rn is not None else 'response'
        self.url_values = {}
        if cfg.get('url_optional'):
            # a leaf pattern made only of optional bindings, served in strict mode: '/' is the empty assignment
            pattern = ''.join('/<%s?>' % n for n in cfg.get('url', [])) or '/r'
            self.path = ''.join('/u_%s' % n for n in cfg.get('url', [])) or '/r'
            self.path_absent = '/'
        else:
            pattern = '/r' + ''.join('/<%s>' % n for n in cfg.get('url', []))
            self.path = '/r' + ''.join('/u_%s' % n for n in cfg.get('url', []))
            self.path_absent = None
        prefix = '/' + ''.join('<%s>' % n for n in cfg.get('prefix_url', [])) if cfg.get('prefix_url') else '/'
        if cfg.get('prefix_url'):
            self.path = ''.join('/u_%s' % n for n in cfg['prefix_url']) + self.path
        slash_kw = {'slash_mode': cfg['slash_mode']} if cfg.get('slash_mode') else {}
        route_res = dict((n, self.value(('res', n))) for n in cfg.get('route_res', []))
        app_res = dict((n, self.value(('res', n))) for n in cfg.get('app_res', []))
        outer_res = dict((n, self.value(('res', n))) for n in cfg.get('outer_res', []))
        route_mws = [x for x, m in zip(insts, cfg['mws']) if m['level'] == 'route']
        one_shot = bool(cfg.get('mws_one_shot'))
        route = Route(pattern, ep, rn, methods=['GET'], middlewares=iter(route_mws) if one_shot else route_mws,
                      resources=route_res)
        # the lists and dicts handed over stay the caller's: what the caller does to them afterwards is not the route's
        route_mws.append(self.ghost())
        route_res['ghost_resource'] = 1
        self.route_obj = route
        sibling = []
        if cfg.get('sibling'):
            # a plain route bound *after* the main one: it must not inherit anything from the main route
            sib = self.make_callable('sib', {'params': []}, 'func')
            self.scripts['sib'] = 'response'
            sibling = [Route('/sib', sib)]
        app_mws_list = [x for x, m in zip(insts, cfg['mws']) if m['level'] == 'app']
        # middlewares= given as a one-shot iterable (a generator): it is consumed once, completely
        app_mws = _OneShot(app_mws_list) if one_shot else app_mws_list
        has_outer = any(m['level'] == 'outer' for m in cfg['mws']) or cfg.get('embedded')
        kw = {}
        if error_handler is not None and not has_outer:
            kw['error_handler'] = error_handler
        if cfg.get('bundled_between'):
            # the stock middlewares sit between the first application-level middleware and the rest: they are
            # transparent for the order and for what is raised or returned through them
            from clastic.middleware import GzipMiddleware, HTTPCacheMiddleware, SimpleProfileMiddleware, ContextProcessor
            from clastic.middleware.stats import StatsMiddleware
            stock = [StatsMiddleware(), GzipMiddleware(), HTTPCacheMiddleware(), SimpleProfileMiddleware(),
                     ContextProcessor(defaults={'zq_unused': 1})]
            app_mws_list[1:1] = stock
            if one_shot:
                app_mws = _OneShot(app_mws_list)
        if construct == 'cline':
            # the bottle-like spelling of the same configuration
            from clastic.cline import Cline
            kw.update(slash_kw)
            app = Cline(resources=app_res, middlewares=app_mws, autorender=False, **kw)
            app.route(pattern, ('GET',), ep, render=rn, middlewares=route_mws[:-1], resources=dict(route_res))
            self.route_obj = None
            for sr in sibling:
                app.add(sr)
        elif construct == 'add':
            kw.update(slash_kw)
            app = Application([], resources=app_res, middlewares=app_mws, **kw)
            app.add(route)
            for sr in sibling:
                app.add(sr)
        elif construct == 'bind':
            kw.update(slash_kw)
            app = Application([], resources=app_res, middlewares=app_mws, **kw)
            route.bind(app)
            app.add(route)
            for sr in sibling:
                app.add(sr)
        else:
            kw.update(slash_kw)
            app = Application(self.decoy_entries(cfg, decoys) + [route] + sibling, resources=app_res, middlewares=app_mws, **kw)
        app_mws_list.append(self.ghost())
        app_res['ghost_resource'] = 1
        self.inner_app = app
        self.prefix = prefix
        self.has_outer = has_outer
        if has_outer:
            kw = {}
            if error_handler is not None:
                kw['error_handler'] = error_handler
            outer_mws = [x for x, m in zip(insts, cfg['mws']) if m['level'] == 'outer']
            if one_shot:
                outer_mws = _OneShot(outer_mws)
            if construct == 'add':
                outer = Application([], resources=outer_res, middlewares=outer_mws, **kw)
                outer.add(SubApplication(prefix, app))
            else:
                outer = Application([(prefix, app)], resources=outer_res, middlewares=outer_mws, **kw)
            self.inner_app = app
            app = outer
        self.app = app
        return app

    def ghost(self):
        """A middleware appended to a caller's list *after* the list was handed to clastic: it must never run."""
        from clastic import Middleware
        h = self

        class Ghost(Middleware):
            def request(self, next):
                h.trace.append(('enter', 'ghost.request', {}))
                return next()

            def endpoint(self, next):
                h.trace.append(('enter', 'ghost.endpoint', {}))
                return next()
        return Ghost()

    def rebind_poorer(self, cfg, error_handler=None):
        """A second serving application made from the very same unbound Route (or embedded application) object,
        with the same middlewares but *without* the serving level's resources.  Returns (cfg2, app2); raises what
        clastic raises."""
        import copy
        from clastic import Application
        cfg2 = copy.deepcopy(cfg)
        kw = {}
        if error_handler is not None:
            kw['error_handler'] = error_handler
        if self.has_outer:
            cfg2['outer_res'] = []
            mws = [x for x, m in zip(self.insts, cfg['mws']) if m['level'] == 'outer']
            app2 = Application([(self.prefix, self.inner_app)], resources={}, middlewares=mws, **kw)
        else:
            cfg2['app_res'] = []
            mws = [x for x, m in zip(self.insts, cfg['mws']) if m['level'] == 'app']
            if cfg.get('slash_mode'):
                kw['slash_mode'] = cfg['slash_mode']
            app2 = Application([self.route_obj], resources={}, middlewares=mws, **kw)
        self.app = app2
        return cfg2, app2

    def expected_value(self, source, fid, name):
        if source[0] == 'default':
            return self.defaults['%s:%s' % (fid, name)]
        if source[0] in ('url', 'res', 'mw'):
            return self.value(source)
        return None


def run_request(h, path, method='GET'):
    from mc import wsgi
    h.reset()
    res = wsgi.call(h.app, path, method)
    return res, list(h.trace)


def verify_wiring(h, wiring, trace, serving_app):
    """Compare what every function received with its declared unique source.
    Returns a list of (kind, message)."""
    bad = []
    req_obj = None
    ds_obj = None
    ep_result = None
    for ev in trace:
        if ev[0] == 'leave' and ev[1] == 'ep' and ev[2] == 'return':
            ep_result = h.objs[ev[3]]
    seen_fids = set()
    for ev in trace:
        if ev[0] != 'enter':
            continue
        fid, args = ev[1], ev[2]
        seen_fids.add(fid)
        w = wiring.get(fid)
        if w is None:
            bad.append(('unexpected-call', '%s ran but is not part of this route' % fid))
            continue
        for name, val in args.items():
            src = w.get(name)
            if src is None:
                bad.append(('undeclared', '%s received %s which the model does not list' % (fid, name)))
                continue
            kind = src[0]
            if kind == 'next':
                if not callable(val):
                    bad.append(('next', '%s: next is %r' % (fid, val)))
            elif kind == 'url':
                if src[1] in h.url_values:
                    if val != h.url_values[src[1]] or type(val) is not type(h.url_values[src[1]]):
                        bad.append(('url', '%s.%s = %r, expected URL value %r' % (fid, name, val, h.url_values[src[1]])))
                elif val != h.value(src):
                    bad.append(('url', '%s.%s = %r, expected URL value %r' % (fid, name, val, h.value(src))))
            elif kind in ('res', 'mw'):
                if val is not h.value(src):
                    bad.append((kind, '%s.%s = %r, expected %r' % (fid, name, val, h.value(src))))
            elif kind == 'default':
                if val is not h.defaults['%s:%s' % (fid, name)]:
                    bad.append(('default', '%s.%s = %r, expected its own default (no source in scope)' % (fid, name, val)))
            elif kind == 'builtin':
                if name == 'request':
                    if req_obj is None:
                        req_obj = val
                    if val is not req_obj or not hasattr(val, 'environ'):
                        bad.append(('builtin-request', '%s.request = %r differs within one request' % (fid, val)))
                elif name == '_application':
                    if val is not serving_app:
                        bad.append(('builtin-application', '%s._application = %r, expected the serving application' % (fid, val)))
                elif name == '_route':
                    if val not in list(serving_app.routes) + [serving_app._null_route]:
                        bad.append(('builtin-route', '%s._route = %r is not a route of the serving application' % (fid, val)))
                elif name == '_dispatch_state':
                    if ds_obj is None:
                        ds_obj = val
                    if val is not ds_obj or not hasattr(val, 'exceptions'):
                        bad.append(('builtin-dispatch-state', '%s._dispatch_state = %r' % (fid, val)))
                elif name == 'context':
                    if val is not ep_result:
                        bad.append(('builtin-context', '%s.context = %r, expected the endpoint result %r' % (fid, val, ep_result)))
    return bad, seen_fids
