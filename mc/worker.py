# -*- coding: utf-8 -*-
"""Worker process: runs one shard of one property module and writes JSON.

usage: worker.py <module> <tier> <shard> <nshards> <outfile>
"""
import importlib
import json
import os
import sys
import traceback

sys.path.insert(0, os.path.dirname(os.path.dirname(os.path.abspath(__file__))))
from mc import common  # noqa: E402


def main(argv):
    modname, tier, shard, nshards, outfile = argv[1], argv[2], int(argv[3]), int(argv[4]), argv[5]
    try:
        common.setup_repo()
        mod = importlib.import_module('props.' + modname)
        res = mod.shard(tier, shard, nshards, common.seed())
        if hasattr(res, 'as_dict'):
            res = res.as_dict()
        res['hashseed'] = os.environ.get('PYTHONHASHSEED')
        status = {'ok': True, 'result': res}
    except BaseException:
        status = {'ok': False, 'error': traceback.format_exc()}
    with open(outfile + '.tmp', 'w') as f:
        json.dump(status, f, default=repr)
    os.rename(outfile + '.tmp', outfile)


if __name__ == '__main__':
    main(sys.argv)
