# -*- coding: utf-8 -*-
"""Reference reading of the signed-cookie format (property C16), stdlib only.

    value  = base64(HMAC-SHA1(key, "|item1|item2..."))  "?"  item1 "&" item2 ...
    item   = urlquote_plus(name) "=" base64(json(value))
An optional item "_expires" holds a unix time after which the cookie is void.

verify() decides *semantically* whether a cookie string carries a valid
signature under `key` and is unexpired, and returns the data it presents
({} when it is not valid).  It never raises.
"""
import base64
import binascii
import hashlib
import hmac
import json
import urllib.parse


def sign(data, key, expires=None):
    items = dict(data)
    if expires is not None:
        items['_expires'] = expires
    parts = []
    mac = hmac.new(key, None, hashlib.sha1)
    for k in sorted(items):
        v = base64.b64encode(json.dumps(items[k]).encode('utf-8'))
        part = (urllib.parse.quote_plus(k) + '=' + v.decode('ascii')).encode('ascii')
        parts.append(part)
        mac.update(b'|' + part)
    return (base64.b64encode(mac.digest()).strip() + b'?' + b'&'.join(parts)).decode('ascii')


def verify(value, key, now):
    """value: the cookie value as text (already unquoted from the Cookie header)."""
    try:
        s = value.strip('"').encode('utf-8', 'replace')
        if not s or b'?' not in s:
            return {}
        mac_b64, data = s.split(b'?', 1)
        m = hmac.new(key, None, hashlib.sha1)
        items = {}
        for item in data.split(b'&'):
            m.update(b'|' + item)
            if b'=' not in item:
                return {}
            k, v = item.split(b'=', 1)
            try:
                k = urllib.parse.unquote_plus(k.decode('ascii'))
            except UnicodeDecodeError:
                return {}
            items[k] = v
        try:
            mac = base64.b64decode(mac_b64)
        except (binascii.Error, ValueError):
            return {}
        if not hmac.compare_digest(mac, m.digest()):
            return {}
        out = {}
        for k, v in items.items():
            try:
                out[k] = json.loads(base64.b64decode(v).decode('utf-8'))
            except Exception:
                return {}
        if '_expires' in out:
            exp = out.pop('_expires')
            try:
                if now > exp:
                    return {}
            except TypeError:
                return {}
        return out
    except Exception:
        return {}
