# -*- coding: utf-8 -*-
"""Reference model of the URL pattern mini-language (property C05).

Written from the documented grammar and the property statement; no regular
expressions are used for matching and nothing is imported from clastic.

A pattern is parsed into a list of elements
    ('lit', text)                      literal segment
    ('bind', name, op, type)           op in '', ':', '?', '*', '+'; type in str/unicode/int/float
plus a flag `branch` (pattern ends with '/').

Validity of a segment for a type is three-valued so that the reference never
demands more than the statement says:
    YES    canonical literal of the type (must be accepted)
    NO     the Python converter rejects it (must be rejected)
    MAYBE  the converter accepts a non-canonical spelling (' 1', '1_0', 'inf');
           the statement is silent, either behaviour is accepted
"""

YES, MAYBE, NO = 2, 1, 0

STRICT, REDIRECT, REWRITE = 'strict', 'redirect', 'rewrite'

_DIGITS = '0123456789'
TYPES = ('str', 'unicode', 'int', 'float')
OPS = ('', ':', '?', '*', '+')
_ARITY = {'': (1, 1), ':': (1, 1), '?': (0, 1), '*': (0, None), '+': (1, None)}


class PatternError(Exception):
    pass


def _is_canon_int(s):
    if s[:1] in '+-':
        s = s[1:]
    return bool(s) and all(c in _DIGITS for c in s)


def _all_digits(s):
    return bool(s) and all(c in _DIGITS for c in s)


def _is_canon_float(s):
    if s[:1] in '+-':
        s = s[1:]
    # optional exponent
    mant = s
    for e in 'eE':
        if e in s:
            mant, _, exp = s.partition(e)
            if exp[:1] in '+-':
                exp = exp[1:]
            if not _all_digits(exp):
                return False
            break
    if '.' in mant:
        a, _, b = mant.partition('.')
        if a == '' and b == '':
            return False
        if a and not _all_digits(a):
            return False
        if b and not _all_digits(b):
            return False
        return True
    return _all_digits(mant)


_VCACHE = {}


def validity(typ, seg):
    key = (typ, seg)
    r = _VCACHE.get(key)
    if r is not None:
        return r
    if seg == '' or '/' in seg:
        r = NO
    elif typ in ('str', 'unicode'):
        r = YES
    elif typ == 'int':
        if _is_canon_int(seg):
            # a canonical numeral beyond the interpreter's conversion limit (4300 digits by default) has no value
            # that could be delivered: the segment then does not satisfy the binding - and nothing may be raised
            try:
                int(seg)
                r = YES
            except ValueError:
                r = NO
        else:
            try:
                int(seg)
                r = MAYBE
            except ValueError:
                r = NO
    elif typ == 'float':
        if _is_canon_float(seg):
            r = YES
        else:
            try:
                float(seg)
                r = MAYBE
            except ValueError:
                r = NO
    else:
        raise PatternError('unknown type %r' % (typ,))
    if len(_VCACHE) < 200000:
        _VCACHE[key] = r
    return r


def convert(typ, seg):
    if typ == 'int':
        return int(seg)
    if typ == 'float':
        return float(seg)
    return seg


def _is_ident(s):
    if not s:
        return False
    if not (s[0].isalpha() or s[0] == '_') or not s[0].isascii():
        return False
    return all((c.isalnum() and c.isascii()) or c == '_' for c in s)


def parse_pattern(pattern):
    """Parse per the documented mini-language; raise PatternError for the
    malformed shapes the property lists.  Returns (elems, branch)."""
    if not pattern.startswith('/'):
        raise PatternError('no leading slash')
    if '//' in pattern:
        raise PatternError('double slash')
    parts = pattern.split('/')[1:]
    branch = False
    if parts and parts[-1] == '' and pattern != '/':
        branch = True
        parts = parts[:-1]
    if pattern == '/':
        return [], True
    elems = []
    names = set()
    for part in parts:
        if part.startswith('<') and part.endswith('>'):
            inner = part[1:-1]
            # name = leading identifier chars; op = following non-word chars; type = word chars
            i = 0
            while i < len(inner) and (inner[i].isalnum() or inner[i] == '_') and inner[i].isascii():
                i += 1
            name = inner[:i]
            j = i
            while j < len(inner) and not ((inner[j].isalnum() and inner[j].isascii()) or inner[j] == '_'):
                j += 1
            op = inner[i:j]
            typ = inner[j:]
            if not _is_ident(name):
                raise PatternError('bad binding name')
            if typ and not all((c.isalnum() and c.isascii()) or c == '_' for c in typ):
                raise PatternError('bad type text')
            if op not in OPS:
                raise PatternError('unknown operator %r' % op)
            if not typ:
                typ = 'unicode'
            if typ not in TYPES:
                raise PatternError('unknown type %r' % typ)
            if name in names:
                raise PatternError('duplicate binding %r' % name)
            names.add(name)
            elems.append(('bind', name, op, typ))
        else:
            elems.append(('lit', part))
    return elems, branch


def pattern_text(elems, branch):
    out = ''
    for e in elems:
        if e[0] == 'lit':
            out += '/' + e[1]
        else:
            out += '/<%s%s%s>' % (e[1], e[2], e[3] or '')
    if branch or not elems:
        out += '/'
    return out


def _assign(elems, segs, i, j, floor, out, limit):
    """Enumerate assignments of segs[j:] to elems[i:]; validity >= floor.
    Appends result dicts to out (at most limit)."""
    if len(out) >= limit:
        return
    if i == len(elems):
        if j == len(segs):
            out.append({})
        return
    e = elems[i]
    if e[0] == 'lit':
        if j < len(segs) and segs[j] == e[1]:
            _assign(elems, segs, i + 1, j + 1, floor, out, limit)
        return
    _, name, op, typ = e
    lo, hi = _ARITY[op]
    mx = len(segs) - j if hi is None else min(hi, len(segs) - j)
    # longest first (greedy order), although any admissible assignment is accepted
    for k in range(mx, lo - 1, -1):
        ok = True
        for s in segs[j:j + k]:
            if validity(typ, s) < floor:
                ok = False
                break
        if not ok:
            continue
        sub = []
        _assign(elems, segs, i + 1, j + k, floor, sub, limit - len(out))
        for rest in sub:
            d = dict(rest)
            vals = [convert(typ, s) for s in segs[j:j + k]]
            if op in ('*', '+'):
                d[name] = vals
            else:
                d[name] = vals[0] if vals else None
            out.append(d)


def split_path(path, mode, branch):
    """Return the list of segments the path denotes in this mode, or None if
    the path's slashes are not admissible at all."""
    if not path.startswith('/'):
        return None
    if mode == STRICT:
        if path == '/':
            return []
        pieces = path.split('/')[1:]
        trailing = pieces[-1] == ''
        segs = pieces[:-1] if trailing else pieces
        if '' in segs:
            return None
        if trailing != branch:
            return None
        return segs
    return [s for s in path.split('/') if s]


def ref_match(elems, branch, mode, path, limit=64):
    """Returns (must, may): `must` is True when the route must match, `may` is
    the list of admissible result dicts (empty list = must not match)."""
    segs = split_path(path, mode, branch)
    if segs is None:
        return False, []
    if mode == STRICT and path == '/' and elems and not branch:
        pass  # '/' alone when nothing is assigned: handled by the generic assignment below
    may = []
    _assign(elems, segs, 0, 0, MAYBE, may, limit)
    if not may:
        return False, []
    sure = []
    _assign(elems, segs, 0, 0, YES, sure, 1)
    return bool(sure), may


def same_value(a, b):
    """Equality that also distinguishes int/float/str and list/None."""
    if type(a) is not type(b):
        return False
    if isinstance(a, list):
        return len(a) == len(b) and all(same_value(x, y) for x, y in zip(a, b))
    if isinstance(a, float):
        return a == b or (a != a and b != b)
    return a == b


def same_dict(a, b):
    return set(a) == set(b) and all(same_value(a[k], b[k]) for k in a)
