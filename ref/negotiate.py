# -*- coding: utf-8 -*-
"""Reference content negotiation over the four formats of clastic's error
pages (property C09), written from RFC 7231 section 5.3.2: the quality of a
media type is the q of the most specific matching media range; a format is
acceptable when its quality is > 0; the answer must be one of the acceptable
formats of maximal quality, or plain text when none is acceptable."""

SUPPORTED = {'text/html': 'html', 'application/json': 'json', 'text/plain': 'text', 'application/xml': 'xml'}


def parse_accept(header):
    """Returns list of (range, q) or None when the header is absent/empty, or 'malformed'."""
    if header is None:
        return None
    if not header.strip():
        return None
    items = []
    for part in header.split(','):
        part = part.strip()
        if not part:
            continue
        bits = [b.strip() for b in part.split(';')]
        rng = bits[0].lower()
        if rng.count('/') != 1 or not all(rng.split('/')):
            return 'malformed'
        q = 1.0
        for b in bits[1:]:
            if b.lower().startswith('q='):
                try:
                    q = float(b[2:])
                except ValueError:
                    return 'malformed'
                if not (0.0 <= q <= 1.0):
                    return 'malformed'
            elif b and '=' not in b:
                return 'malformed'
        items.append((rng, q))
    if not items:
        return 'malformed'
    return items


def quality(items, mtype):
    best = None
    major = mtype.split('/')[0]
    for rng, q in items:
        if rng == mtype:
            spec = 3
        elif rng == major + '/*':
            spec = 2
        elif rng == '*/*':
            spec = 1
        else:
            continue
        if best is None or spec > best[0] or (spec == best[0] and q > best[1]):
            best = (spec, q)
    return best[1] if best else 0.0


def acceptable_formats(header):
    """Set of format names the response may use."""
    items = parse_accept(header)
    if items is None or items == 'malformed':
        return set(SUPPORTED.values())
    qs = dict((fmt, quality(items, mt)) for mt, fmt in SUPPORTED.items())
    top = max(qs.values())
    if top <= 0:
        return set(['text'])
    return set(f for f, q in qs.items() if q == top)
