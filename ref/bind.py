# -*- coding: utf-8 -*-
"""Reference model of bind-time dependency checking, argument wiring and
name-conflict rules (properties C01, C02, C04; the stack order is shared
with C03 through ref/onion.py).

Operates on the configuration DSL only (plain dicts/lists); imports nothing
from clastic.

cfg = {
  'mws':   [ {'level': 'outer'|'app'|'route', 'type': str, 'unique': bool, 'reorderable': bool,
              'request'|'endpoint'|'render': None | {'params': [[name, role], ...], ...},
              'provides'|'endpoint_provides'|'render_provides': [names]} ... ],
  'endpoint': {'params': [[name, role], ...], 'kind': ...},
  'render':   None | {'params': ...},
  'url': [names], 'app_res': [names], 'route_res': [names], 'outer_res': [names]
}
roles: 'req' required, 'def' defaulted, 'kwreq' keyword-only required,
       'kwdef' keyword-only defaulted, 'pos' positional-only required.
Middleware functions implicitly take `next` first unless 'no_next'/'next_at' says otherwise.
"""

REQUEST_BUILTINS = ('request', '_application', '_route', '_dispatch_state')
RESERVED = REQUEST_BUILTINS + ('context', 'next')
# names that no URL binding, resource or middleware may offer although they are not injectable built-ins:
# `_error` is documented as a reserved built-in (it exists for render_error functions only); `self` cannot be handed
# to anything by name (the framework's own bound methods receive the injectables as keywords)
UNDELIVERABLE = ('_error', 'self')
PHASES = ('request', 'endpoint', 'render')
PROVIDES_ATTR = {'request': 'provides', 'endpoint': 'endpoint_provides', 'render': 'render_provides'}
REQUIRED_ROLES = ('req', 'kwreq', 'pos')

NULL_ENDPOINT = {'params': [['request', 'req'], ['_application', 'req'], ['_route', 'req'], ['_dispatch_state', 'req']]}
NULL_RENDER = {'params': [['context', 'req']]}


class Reject(Exception):
    def __init__(self, exc_names, why):
        Exception.__init__(self, why)
        self.exc_names = exc_names
        self.why = why


LEVEL_ORDER = {'outer': 0, 'app': 1, 'route': 2}


def merged_stack(cfg, which='route'):
    """Indices into cfg['mws'] in effective order for the route ('route') or
    for the catch-all route of the serving application ('null').

    Merge rule: the binding application's list first (as given, duplicates
    and all), then each more-inner list; a unique middleware type already
    present is skipped (kept at its outermost position) unless it is not
    reorderable, which is an error."""
    mws = cfg['mws']
    levels = sorted(set(m['level'] for m in mws), key=lambda l: LEVEL_ORDER[l])
    has_outer = 'outer' in levels or cfg.get('embedded')
    serving = 'outer' if has_outer else 'app'
    if which == 'null':
        return [i for i, m in enumerate(mws) if m['level'] == serving]
    # binding happens inside-out: app binds route (app list first), then outer binds that
    order = [i for i, m in enumerate(mws) if m['level'] == 'app']

    def absorb(base, extra):
        out = list(base)
        for i in extra:
            m = mws[i]
            if m.get('unique', True) and any(mws[j]['type'] == m['type'] for j in out):
                if m.get('reorderable', True):
                    continue
                raise Reject(('ValueError',), 'multiple inclusion of non-reorderable unique middleware %s' % m['type'])
            out.append(i)
        return out
    order = absorb(order, [i for i, m in enumerate(mws) if m['level'] == 'route'])
    if has_outer:
        order = absorb([i for i, m in enumerate(mws) if m['level'] == 'outer'], order)
    return order


def func_params(f):
    return [(p[0], p[1]) for p in f['params']]


def check_function_shapes(cfg, stack):
    """Misplaced next: middleware functions must take next first; endpoint/render must not take it."""
    for i in stack:
        m = cfg['mws'][i]
        for ph in PHASES:
            f = m.get(ph)
            if not f:
                continue
            if f.get('next_at', 0) != 0:
                raise Reject(('TypeError', 'IndexError', 'NameError'), 'middleware function without next as first parameter')


def conflicts(cfg, stack, which):
    """Names offered by more than one source on this route."""
    src = {}

    def offer(name, source):
        src.setdefault(name, []).append(source)
    if which == 'route':
        for n in list(cfg.get('url', [])) + list(cfg.get('prefix_url', [])):
            offer(n, 'url')
    else:
        offer('_ignored', 'url')
    for n in RESERVED:
        offer(n, 'builtins')
    for n in UNDELIVERABLE:
        offer(n, 'undeliverable')
    res = set(cfg.get('outer_res', []))
    if not (which == 'null' and ('outer' in [m['level'] for m in cfg['mws']] or cfg.get('embedded'))):
        res |= set(cfg.get('app_res', []))
    if which == 'route':
        res |= set(cfg.get('route_res', []))
    for n in res:
        offer(n, 'resources')
    for i in stack:
        m = cfg['mws'][i]
        for ph in PHASES:
            for n in m.get(PROVIDES_ATTR[ph], []):
                offer(n, 'mw%d.%s' % (i, ph))
    return dict((n, s) for n, s in src.items() if len(s) > 1)


def availability(cfg, stack, which):
    """Walks the three phases; returns (missing, wiring).
    missing: list of (fid, name) required but not available.
    wiring: {fid: {name: source}} with source one of
        ('url', name) ('res', name) ('builtin', name) ('mw', i, phase, name) ('default',) ('next',)
    """
    mws = cfg['mws']
    base = {}
    if which == 'route':
        for n in list(cfg.get('url', [])) + list(cfg.get('prefix_url', [])):
            base[n] = ('url', n)
    serving_is_outer = 'outer' in [m['level'] for m in mws] or cfg.get('embedded')
    for n in cfg.get('outer_res', []):
        base[n] = ('res', n)
    if which == 'route' or not serving_is_outer:
        for n in cfg.get('app_res', []):
            base.setdefault(n, ('res', n))
    if which == 'route':
        for n in cfg.get('route_res', []):
            base.setdefault(n, ('res', n))
    for n in REQUEST_BUILTINS:
        base[n] = ('builtin', n)
    missing = []
    wiring = {}

    def visit(fid, f, scope, is_mw):
        w = {}
        for name, role in func_params(f):
            if name == 'next' and is_mw:
                w[name] = ('next',)
                continue
            if name in scope:
                w[name] = scope[name]
            elif role in REQUIRED_ROLES:
                missing.append((fid, name))
            else:
                w[name] = ('default',)
        wiring[fid] = w

    ep = cfg['endpoint'] if which == 'route' else NULL_ENDPOINT
    rn = cfg.get('render') if which == 'route' else NULL_RENDER
    # request phase
    scope = dict(base)
    for i in stack:
        f = mws[i].get('request')
        if not f:
            continue
        visit('m%d.request' % i, f, scope, True)
        for n in mws[i].get('provides', []):
            scope[n] = ('mw', i, 'request', n)
    after_request = dict(scope)
    # endpoint phase
    scope = dict(after_request)
    for i in stack:
        f = mws[i].get('endpoint')
        if not f:
            continue
        visit('m%d.endpoint' % i, f, scope, True)
        for n in mws[i].get('endpoint_provides', []):
            scope[n] = ('mw', i, 'endpoint', n)
    visit('ep', ep, scope, False)
    # render phase
    scope = dict(after_request)
    scope['context'] = ('builtin', 'context')
    for i in stack:
        f = mws[i].get('render')
        if not f:
            continue
        visit('m%d.render' % i, f, scope, True)
        for n in mws[i].get('render_provides', []):
            scope[n] = ('mw', i, 'render', n)
    if rn:
        visit('rn', rn, scope, False)
    return missing, wiring


def has_cycle(cfg, stack, which):
    """Provided names depending on each other through the parameter lists of the providing functions."""
    mws = cfg['mws']
    g = {}
    for i in stack:
        for ph in PHASES:
            f = mws[i].get(ph)
            deps = [p[0] for p in f['params']] if f else []
            for n in mws[i].get(PROVIDES_ATTR[ph], []):
                g.setdefault(n, set()).update(deps)
    # depth-first search for a cycle
    state = {}

    def dfs(n):
        state[n] = 1
        for d in g.get(n, ()):
            if state.get(d) == 1:
                return True
            if d not in state and dfs(d):
                return True
        state[n] = 2
        return False
    for n in list(g):
        if n not in state and dfs(n):
            return True
    return False


def analyse(cfg):
    """Returns dict(verdict='accept'|'reject'|'either', exc=acceptable exception names, why=..., routes={which: {...}})"""
    out = {'verdict': 'accept', 'exc': (), 'why': '', 'wiring': {}, 'stack': {}, 'posonly': False}
    rejects = []
    either = False
    # reserved names used as application resources are refused before anything else
    for key in ('app_res', 'outer_res'):
        bad = [n for n in cfg.get(key, []) if n in RESERVED + UNDELIVERABLE]
        if bad:
            rejects.append((('NameError',), 'reserved name %r used as application resource' % bad))
    whichs = ['route', 'null']
    for which in whichs:
        try:
            stack = merged_stack(cfg, which)
        except Reject as r:
            rejects.append((r.exc_names, r.why))
            continue
        out['stack'][which] = stack
        try:
            check_function_shapes(cfg, stack)
        except Reject as r:
            rejects.append((r.exc_names, r.why))
            continue
        if which == 'route':
            for key, f in (('endpoint', cfg['endpoint']), ('render', cfg.get('render'))):
                if f and any(p[0] == 'next' for p in f['params']):
                    rejects.append((('NameError',), '%s takes next' % key))
        c = conflicts(cfg, stack, which)
        if c:
            rejects.append((('NameError',), 'conflicting sources %r' % sorted(c.items())))
            continue
        missing, wiring = availability(cfg, stack, which)
        if has_cycle(cfg, stack, which):
            # cyclic provides: the statement accepts either outcome of construction (and today's
            # undocumented cycle check reports them with its own exception type)
            either = True
        elif missing:
            rejects.append((('NameError',), 'unresolved %r on %s route' % (missing, which)))
        out['wiring'][which] = wiring
    # positional-only parameters cannot be supplied by name: rejecting them at construction is also conforming
    fs = [cfg['endpoint'], cfg.get('render')]
    for m in cfg['mws']:
        fs += [m.get(ph) for ph in PHASES]
    if any(f and any(p[1] == 'pos' for p in f['params']) for f in fs):
        out['posonly'] = True
    if either and all(w.startswith('unresolved') for _, w in rejects):
        rejects = []
    if rejects:
        out['verdict'] = 'reject'
        out['exc'] = tuple(sorted(set(n for names, _ in rejects for n in names)))
        out['why'] = '; '.join(w for _, w in rejects)
    elif either:
        out['verdict'] = 'either'
        out['why'] = 'provided names depend on each other cyclically'
    return out


def inner_view(cfg):
    """The embedded application on its own (it is constructed first, before it is embedded)."""
    import copy
    c = copy.deepcopy(cfg)
    c['mws'] = [m for m in c['mws'] if m['level'] != 'outer']
    c['outer_res'] = []
    c['prefix_url'] = []
    c['embedded'] = False
    return c


def analyse_all(cfg):
    """Construction happens inside-out: the embedded application alone first, then the serving one.
    The first view that is not accepted decides; wiring is that of the serving view."""
    if not (cfg.get('embedded') or any(m['level'] == 'outer' for m in cfg['mws'])):
        return analyse(cfg)
    inner = analyse(inner_view(cfg))
    if inner['verdict'] == 'reject':
        return inner
    outer = analyse(cfg)
    if outer['verdict'] == 'accept' and inner['verdict'] == 'either':
        outer['verdict'] = 'either'
        outer['why'] = inner['why']
    return outer
