# -*- coding: utf-8 -*-
"""Reference flattening of a tree of embedded applications (property C10).

A tree is a chain of levels, outermost first:
  level = {'prefix': str (how it is mounted in its parent; ignored for level 0),
           'mws': [middleware names], 'unique': {name: bool},
           'res': {name: value}, 'slash': mode, 'factory': tag or None,
           'inherit': bool, 'rebind': bool (flags of the embedding of this level into its parent),
           'routes': [route specs owned by this level]}
  route spec = {'pattern', 'endpoint' (tag), 'render' (None | template name), 'methods' (None | list)}
Level k's routing table is: [embedded level k+1 under its prefix] + its own routes.

flatten(levels) returns the flat declaration the statement describes: a list of
  {'pattern', 'endpoint', 'render': None | (factory tag, template), 'methods', 'mws': [(name, level)],
   'res': {name: (value)}, 'slash': mode, 'level': k}
in routing order.
"""


def merge_mws(levels, upto):
    out = []
    for k in range(0, upto + 1):
        lv = levels[k]
        for name in lv['mws']:
            uniq = lv.get('unique', {}).get(name, True)
            if uniq and any(n == name for n, _ in out):
                continue
            out.append((name, k))
    return out


def resources(levels, k):
    """Innermost first, each more-outer level overriding... except that only the serving (outermost)
    application's value is documented to win; a name defined only by inner levels keeps the innermost
    definition reached first by the bind order (inner wins at bind time)."""
    res = {}
    for j in range(0, k + 1):          # outer to inner: inner overrides (bind time)
        res.update(levels[j]['res'])
    res.update(levels[0]['res'])       # the serving application wins for the names it defines
    return res


def slash_mode(levels, k):
    mode = levels[k]['slash']
    for j in range(k, 0, -1):          # embedding of level j into level j-1
        if levels[j]['inherit']:
            mode = levels[j - 1]['slash']
    return mode


def render_choice(levels, k, render_arg):
    """Which level's factory turns the template name into a render function (None: no render)."""
    if render_arg is None:
        return None
    chosen = None
    # first binding: into the owning application (always binds if it has a factory)
    if levels[k]['factory']:
        chosen = k
    for j in range(k, 0, -1):
        # embedding level j into level j-1: factories of all applications bound so far, outermost first
        rebind = levels[j]['rebind']
        cands = [i for i in range(j - 1, k + 1) if levels[i]['factory']]
        outermost = cands[0] if cands else None
        if (rebind or chosen is None) and outermost is not None:
            chosen = outermost
    return chosen


def full_prefix(levels, k):
    return ''.join(levels[j]['prefix'].rstrip('/') for j in range(1, k + 1))


def flatten(levels):
    def table(k):
        out = []
        if k + 1 < len(levels):
            out.extend(table(k + 1))
        for r in levels[k]['routes']:
            ch = render_choice(levels, k, r.get('render'))
            out.append({'pattern': full_prefix(levels, k) + r['pattern'], 'endpoint': r['endpoint'],
                        'render': None if (r.get('render') is None) else
                        ((levels[ch]['factory'], r['render']) if ch is not None else ('noop', r['render'])),
                        'methods': r.get('methods'), 'mws': merge_mws(levels, k), 'res': resources(levels, k),
                        'slash': slash_mode(levels, k), 'level': k})
        return out
    return table(0)
