# -*- coding: utf-8 -*-
"""Reference model of request dispatch (property C06, reused by C07/C10/C11).

A routing table is a list of route descriptions
    {'pattern': str, 'methods': None | list of upper-case names, 'behaviour': str}
Behaviours: 'answer' | 'break4' | 'break5' | 'nb404r' (non-breaking 404 raised) |
            'nb403t' (non-breaking 403 returned) | 'boom' (uncaught exception).

The model is the ordered loop of the property statement and nothing else.
"""
from ref import match as M

KNOWN_METHODS = set(['GET', 'HEAD', 'POST', 'PUT', 'DELETE', 'OPTIONS', 'TRACE', 'CONNECT', 'PATCH'])

BEHAVIOUR_STATUS = {'answer': 200, 'break4': 409, 'break5': 503, 'nb404r': 404, 'nb403t': 403, 'boom': 500,
                    'nbshared': 404, 'nbshared2': 403}     # prepared error objects, raised again by every route that uses them
NONBREAKING = ('nb404r', 'nb403t', 'nbshared', 'nbshared2')


def method_set(methods):
    if not methods:
        return None
    s = set(m.upper() for m in methods)
    if 'GET' in s:
        s.add('HEAD')
    return s


def admits(methods, method):
    ms = method_set(methods)
    if ms is None:
        return True
    return method.upper() in ms


def canonical(path, branch):
    segs = [s for s in path.split('/') if s]
    if not segs:
        return '/'
    return '/' + '/'.join(segs) + ('/' if branch else '')


_PCACHE = {}
_MCACHE = {}


def parsed(pattern):
    r = _PCACHE.get(pattern)
    if r is None:
        r = _PCACHE[pattern] = M.parse_pattern(pattern)
    return r


def dispatch(table, mode, path, method, route_modes=None):
    """Returns a dict describing the expected observable:
       kind: 'route' (route i's outcome is the response), 'redirect', '404', '405'
       executed: indices of the routes whose endpoint ran, in order
       status, index (answering route), allow (set), location_path, params_options
    """
    executed = []
    allowed = set()
    any_path_match = False
    last_nb = None
    for i, rt in enumerate(table):
        elems, branch = parsed(rt['pattern'])
        rmode = route_modes[i] if route_modes else mode
        ck = (rt['pattern'], rmode, path)
        hit = _MCACHE.get(ck)
        if hit is None:
            hit = _MCACHE[ck] = M.ref_match(elems, branch, rmode, path)
        must, may = hit
        if not may:
            continue
        if not must:
            return {'kind': 'unspecified'}
        any_path_match = True
        if not admits(rt.get('methods'), method):
            allowed |= method_set(rt.get('methods'))
            continue
        if branch and canonical(path, True) != path:
            if rmode == M.REDIRECT:
                return {'kind': 'redirect', 'executed': executed, 'index': i,
                        'location_path': canonical(path, True)}
            # rewrite: executes directly; strict: unreachable (strict matching is exact)
        executed.append(i)
        b = rt['behaviour']
        if b in NONBREAKING:
            last_nb = i
            continue
        return {'kind': 'route', 'executed': executed, 'index': i, 'status': BEHAVIOUR_STATUS[b],
                'params_options': may}
    if last_nb is not None:
        return {'kind': 'route', 'executed': executed, 'index': last_nb,
                'status': BEHAVIOUR_STATUS[table[last_nb]['behaviour']]}
    if allowed:
        return {'kind': '405', 'executed': executed, 'status': 405, 'allow': allowed}
    return {'kind': '404', 'executed': executed, 'status': 404}
