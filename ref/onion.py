# -*- coding: utf-8 -*-
"""Reference model of the M-shaped middleware nesting (property C03).

Simulates, on symbolic objects, the onion the statement describes: request
middlewares in merged order, then endpoint middlewares around the endpoint,
then - only if the endpoint side did not produce a Response - render
middlewares around the render function; each layer unwinds in reverse order;
whatever a layer returns or raises is exactly what its caller's next() sees.

The scripts are those of the harness (mc/chain.py): pass, raise_before,
raise_after, early, swallow, replace for middleware functions; response,
context, httpexc, raise, raise_httpexc for the endpoint; render always
returns a Response unless scripted to raise.
"""
from ref import bind as B


class Sim(object):
    def __init__(self, cfg):
        self.cfg = cfg
        self.trace = []
        self.objs = []

    def new(self, label, is_response):
        o = {'label': label, 'is_response': is_response}
        return o

    def tag(self, o):
        for i, x in enumerate(self.objs):
            if x is o:
                return i
        self.objs.append(o)
        return len(self.objs) - 1

    def script(self, fid):
        if fid == 'sib':
            return 'pass'
        if fid == 'ep':
            f = self.cfg['endpoint']
        elif fid == 'rn':
            f = self.cfg.get('render') or {}
        else:
            i, ph = fid[1:].split('.')
            f = self.cfg['mws'][int(i)].get(ph) or {}
        return f.get('script') or 'pass'

    def layer(self, fids, k, leaf):
        if k == len(fids):
            return leaf()
        fid = fids[k]
        sc = self.script(fid)
        tr = self.trace
        tr.append(('enter', fid))
        if sc == 'raise_before':
            e = self.new('boom:' + fid, False)
            tr.append(('leave', fid, 'raise', self.tag(e)))
            return ('raise', e)
        if sc == 'early':
            r = self.new('early:' + fid, True)
            tr.append(('leave', fid, 'return', self.tag(r)))
            return ('return', r)
        out = self.layer(fids, k + 1, leaf)
        if out[0] == 'raise':
            tr.append(('next_raised', fid, self.tag(out[1])))
            if sc == 'swallow':
                r = self.new('swallowed:' + fid, True)
                tr.append(('leave', fid, 'return', self.tag(r)))
                return ('return', r)
            tr.append(('leave', fid, 'raise', self.tag(out[1])))
            return out
        tr.append(('next_returned', fid, self.tag(out[1])))
        if sc == 'raise_after':
            e = self.new('boom:' + fid, False)
            tr.append(('leave', fid, 'raise', self.tag(e)))
            return ('raise', e)
        if sc == 'replace':
            r = self.new('replaced:' + fid, True)
            tr.append(('leave', fid, 'return', self.tag(r)))
            return ('return', r)
        tr.append(('leave', fid, 'return', self.tag(out[1])))
        return out

    def leaf(self, fid, default_kind):
        sc = self.script(fid)
        tr = self.trace
        tr.append(('enter', fid))
        if sc in ('raise', 'raise_before'):
            e = self.new('boom:' + fid, False)
            tr.append(('leave', fid, 'raise', self.tag(e)))
            return ('raise', e)
        kind = default_kind if sc == 'pass' else sc
        if kind == 'raise_httpexc':
            e = self.new('httpexc-raised:' + fid, True)
            e['status'] = 409
            tr.append(('leave', fid, 'raise', self.tag(e)))
            return ('raise', e)
        if kind == 'context':
            r = self.new('ctx:' + fid, False)
        elif kind == 'httpexc':
            r = self.new('httpexc:' + fid, True)
            r['status'] = 409
        else:
            r = self.new('resp:' + fid, True)
        tr.append(('leave', fid, 'return', self.tag(r)))
        return ('return', r)


def simulate(cfg, sibling=False, catchall=False):
    """Returns dict(trace=[...], outcome=('return'|'raise', obj), status=int) for a request that hits the route
    (sibling=True: for a plain route without own middlewares bound after it in the same application;
    catchall=True: for the serving application's built-in catch-all route - only the serving application's own
    middlewares apply; its leaf appears in the trace as 'sib')."""
    if catchall:
        sibling = True
    if sibling:
        import copy
        cfg = copy.deepcopy(cfg)
        if catchall:
            serving = 'outer' if (cfg.get('embedded') or any(m['level'] == 'outer' for m in cfg['mws'])) else 'app'
            for m in cfg['mws']:
                if m['level'] != serving:
                    m['level'] = 'route'      # does not apply to the serving application's catch-all route
        keep = [i for i, m in enumerate(cfg['mws']) if m['level'] != 'route']
        for i, m in enumerate(cfg['mws']):
            if i not in keep:
                for ph in B.PHASES:
                    m[ph] = None          # route-level middlewares of the other route do not apply
        cfg['render'] = None
    stack = B.merged_stack(cfg, 'route')
    if sibling:
        stack = [i for i in stack if cfg['mws'][i]['level'] != 'route']
    mws = cfg['mws']
    s = Sim(cfg)
    def al(i):      # an entry may be the very same middleware object as an earlier one
        j = mws[i].get('same_as')
        return i if j is None else j
    req = ['m%d.request' % al(i) for i in stack if mws[i].get('request')]
    epl = ['m%d.endpoint' % al(i) for i in stack if mws[i].get('endpoint')]
    rnl = ['m%d.render' % al(i) for i in stack if mws[i].get('render')]
    has_render = bool(cfg.get('render'))
    ep_default = 'context' if has_render else 'response'

    leaf_fid = 'sib' if sibling else 'ep'

    def process_request():
        out = s.layer(epl, 0, lambda: s.leaf(leaf_fid, ep_default))
        if out[0] == 'raise':
            return out
        if out[1]['is_response']:
            return out
        if has_render:
            return s.layer(rnl, 0, lambda: s.leaf('rn', 'response'))
        # no render function: render middlewares still wrap the identity render
        return s.layer(rnl, 0, lambda: ('return', out[1]))
    out = s.layer(req, 0, process_request)
    if out[0] == 'return':
        o = out[1]
        if o['is_response']:
            status = o.get('status', 200)
        else:
            status = 500   # a non-Response result becomes the handler's server error
    else:
        status = out[1].get('status', 500) if out[1]['is_response'] else 500
    return {'trace': s.trace, 'outcome': out, 'status': status, 'stack': stack}
