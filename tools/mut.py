#!/usr/bin/env python3
"""Confirm a seeded change and run checks against it.

  mut.py confirm <srcdir> <k> <seed-id>     verify patch<k>/demo<k> from a sub-agent in a scratch worktree
                                            (tests pass, demo fails with / passes without) and store it as
                                            /verif/seeded/<seed-id>/
  mut.py run <seed-id> <Cxx> [<Cxx>...]     apply seeded/<seed-id>/patch.diff to /repo, run the quick checks,
                                            always undo; prints DETECTED / MISSED per check
"""
import json
import os
import shutil
import subprocess
import sys

VERIF = os.path.dirname(os.path.dirname(os.path.abspath(__file__)))
REPO = '/repo'
PY = '/venv/bin/python'
SCRATCH = '/tmp/mut/verify-%d' % os.getpid()


def sh(cmd, cwd=None, timeout=1800):
    p = subprocess.run(cmd, shell=True, cwd=cwd, stdout=subprocess.PIPE, stderr=subprocess.STDOUT, timeout=timeout)
    return p.returncode, p.stdout.decode('utf8', 'replace')


def confirm(src, k, sid):
    patch = os.path.join(src, 'patch%s.diff' % k)
    demo = os.path.join(src, 'demo%s.py' % k)
    meta = json.load(open(os.path.join(src, 'meta%s.json' % k)))
    if os.path.exists(SCRATCH):
        sh('git -C %s worktree remove --force %s' % (REPO, SCRATCH))
    rc, out = sh('git -C %s worktree add -q --detach %s HEAD' % (REPO, SCRATCH))
    assert rc == 0, out
    ran = []
    try:
        rc, out = sh('%s %s' % (PY, demo), cwd=SCRATCH)
        ran.append('clean tree: demo rc=%d' % rc)
        if rc != 0:
            print('REJECT: demo fails on the clean tree\n' + out[-1500:])
            return False
        rc, out = sh('git apply %s || git apply -3 %s' % (patch, patch), cwd=SCRATCH)
        if rc != 0:
            print('REJECT: patch does not apply\n' + out[-1500:])
            return False
        rc, diff = sh('git diff', cwd=SCRATCH)
        rc, out = sh('%s -m pytest -q -p no:cacheprovider -x 2>&1 | tail -3' % PY, cwd=SCRATCH)
        ran.append('patched tree: pytest -> ' + out.strip().splitlines()[-1])
        if ' passed' not in out or 'failed' in out or 'error' in out.lower().replace('errors.py', ''):
            print('REJECT: test suite not green with the patch\n' + out[-1500:])
            return False
        rc, out = sh('%s %s' % (PY, demo), cwd=SCRATCH)
        ran.append('patched tree: demo rc=%d' % rc)
        if rc == 0:
            print('REJECT: demo passes with the patch')
            return False
        d = os.path.join(VERIF, 'seeded', sid)
        os.makedirs(d, exist_ok=True)
        with open(os.path.join(d, 'patch.diff'), 'w') as f:
            f.write(diff)
        shutil.copy(demo, os.path.join(d, 'demo.py'))
        meta.update({'seed_id': sid, 'confirmed': ran, 'base_commit': sh('git -C %s rev-parse --short HEAD' % REPO)[1].strip(),
                     'origin': 'independent sub-agent given only the property text'})
        with open(os.path.join(d, 'meta.json'), 'w') as f:
            json.dump(meta, f, indent=1)
        print('CONFIRMED %s: %s' % (sid, '; '.join(ran)))
        return True
    finally:
        sh('git -C %s worktree remove --force %s' % (REPO, SCRATCH))


def run(sid, props, tier='quick'):
    d = os.path.join(VERIF, 'seeded', sid)
    patch = os.path.join(d, 'patch.diff')
    rc, out = sh('git -C %s status --porcelain' % REPO)
    assert out.strip() == '', '/repo is not clean: ' + out
    rc, out = sh('git apply %s || git apply -3 %s' % (patch, patch), cwd=REPO)
    results = {}
    try:
        if rc != 0:
            print('patch does not apply to /repo: ' + out[-800:])
            return
        for p in props:
            rc, out = sh('%s check.py %s --tier %s --no-evidence' % (PY, p, tier), cwd=VERIF, timeout=7200)
            viol = [l for l in out.splitlines() if l.startswith('VIOLATION')]
            sigs = [l.strip() for l in out.splitlines() if l.strip().startswith('sig=')]
            verdict = 'DETECTED' if rc == 1 and viol else ('INTERNAL-ERROR' if rc == 2 else 'MISSED')
            results[p] = verdict
            print('%s %s by %s (rc=%d)%s' % (sid, verdict, p, rc, ''))
            for s in sigs[:3]:
                print('    ' + s[:300])
            if rc == 2:
                print(out[-1500:])
    finally:
        sh('git -C %s checkout HEAD -- . && git -C %s clean -fdq' % (REPO, REPO))
        rc, out = sh('git -C %s status --porcelain' % REPO)
        assert out.strip() == '', 'could not restore /repo: ' + out
    mp = os.path.join(d, 'meta.json')
    meta = json.load(open(mp))
    meta.setdefault('check_results', {}).update(results)
    with open(mp, 'w') as f:
        json.dump(meta, f, indent=1)


def run_scratch(sid, props, tier='quick'):
    """Like run(), but on a scratch worktree selected with VERIF_REPO (leaves /repo alone; usable in parallel)."""
    d = os.path.join(VERIF, 'seeded', sid)
    patch = os.path.join(d, 'patch.diff')
    scratch = '/tmp/mut/scratch-%s-%d' % (sid, os.getpid())
    rc, out = sh('git -C %s worktree add -q --detach %s HEAD' % (REPO, scratch))
    assert rc == 0, out
    results = {}
    try:
        rc, out = sh('git apply %s || git apply -3 %s' % (patch, patch), cwd=scratch)
        if rc != 0:
            print('patch does not apply: ' + out[-500:])
            return
        for p in props:
            rc, out = sh('VERIF_REPO=%s %s check.py %s --tier %s --no-evidence' % (scratch, PY, p, tier), cwd=VERIF, timeout=7200)
            viol = [l for l in out.splitlines() if l.startswith('VIOLATION')]
            sigs = [l.strip() for l in out.splitlines() if l.strip().startswith('sig=')]
            verdict = 'DETECTED' if rc == 1 and viol else ('INTERNAL-ERROR' if rc == 2 else 'MISSED')
            results[p] = verdict
            print('%s %s by %s (rc=%d)' % (sid, verdict, p, rc))
            for s_ in sigs[:3]:
                print('    ' + s_[:300])
            if rc == 2:
                print(out[-1500:])
    finally:
        sh('git -C %s worktree remove --force %s' % (REPO, scratch))
    mp = os.path.join(d, 'meta.json')
    meta = json.load(open(mp))
    meta.setdefault('check_results', {}).update(results)
    with open(mp, 'w') as f:
        json.dump(meta, f, indent=1)


def reconfirm(sid):
    """Re-validate a stored seed against the current /repo HEAD (after fix commits)."""
    d = os.path.join(VERIF, 'seeded', sid)
    patch, demo = os.path.join(d, 'patch.diff'), os.path.join(d, 'demo.py')
    if os.path.exists(SCRATCH):
        sh('git -C %s worktree remove --force %s' % (REPO, SCRATCH))
    rc, out = sh('git -C %s worktree add -q --detach %s HEAD' % (REPO, SCRATCH))
    assert rc == 0, out
    try:
        rc0, _ = sh('%s %s' % (PY, demo), cwd=SCRATCH)
        rc, out = sh('git apply %s || git apply -3 %s' % (patch, patch), cwd=SCRATCH)
        if rc != 0:
            print('%s STALE: patch does not apply' % sid)
            return False
        rc, out = sh('%s -m pytest -q -p no:cacheprovider -x 2>&1 | tail -3' % PY, cwd=SCRATCH)
        tests_ok = ' passed' in out and 'failed' not in out
        rc1, _ = sh('%s %s' % (PY, demo), cwd=SCRATCH)
        ok = rc0 == 0 and tests_ok and rc1 != 0
        print('%s %s: clean demo rc=%d, tests %s, patched demo rc=%d' % (sid, 'VALID' if ok else 'STALE', rc0,
                                                                         'pass' if tests_ok else 'FAIL', rc1))
        mp = os.path.join(d, 'meta.json')
        meta = json.load(open(mp))
        meta['revalidated_at'] = sh('git -C %s rev-parse --short HEAD' % REPO)[1].strip()
        meta['revalidation'] = 'valid' if ok else 'stale (clean demo rc=%d, tests %s, patched demo rc=%d)' % (rc0, 'pass' if tests_ok else 'fail', rc1)
        with open(mp, 'w') as f:
            json.dump(meta, f, indent=1)
        return ok
    finally:
        sh('git -C %s worktree remove --force %s' % (REPO, SCRATCH))


if __name__ == '__main__':
    if sys.argv[1] == 'run-scratch':
        run_scratch(sys.argv[2], sys.argv[3:], os.environ.get('MUT_TIER', 'quick'))
        sys.exit(0)
    if sys.argv[1] == 'reconfirm':
        for sid in sys.argv[2:]:
            reconfirm(sid)
        sys.exit(0)
    if sys.argv[1] == 'confirm':
        ok = confirm(sys.argv[2], sys.argv[3], sys.argv[4])
        sys.exit(0 if ok else 1)
    elif sys.argv[1] == 'run':
        tier = os.environ.get('MUT_TIER', 'quick')
        run(sys.argv[2], sys.argv[3:], tier)
