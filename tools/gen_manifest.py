#!/usr/bin/env python3
"""Regenerates MANIFEST.json from the table below (one row per built check)."""
import json
import os

HERE = os.path.dirname(os.path.dirname(os.path.abspath(__file__)))

ALL = ['C%02d' % i for i in range(1, 21)]

EXTRA2 = {'C01': ' Rounds 6-7: the bundled providing middlewares with non-default names and several fields; undeliverable names (_error, self) in the reference.', 'C02': " Rounds 6-7: shared ContextProcessor histories, bundled providers' values.", 'C03': ' Rounds 6-7: one-shot iterables, the Cline spelling, stock middlewares in the middle of the stack, a route added after the meta page was served.', 'C04': " Rounds 6-7: bundled middlewares' provided names x 8 argument shapes, prefix bindings as a source, decorated functions, documented-reserved names (found and fixed: _error, self).", 'C05': " Rounds 6-7: segments ending in a newline (found and fixed: $ vs \\\\Z), dot segments, '+' paths through the development server's parsing.", 'C06': ' Rounds 6-7: requests while the table grows, profile / development-server / absolute-form variants, bindings named like error options.', 'C07': ' Rounds 6-7: development-server environ seam, 405 histories, Cline placement, embedded root route.', 'C08': ' Rounds 6-7: render_error returning no response (found and fixed), keyword-only handler twin, lazily failing JSON, unsupported mimetype, profiled requests in the histories.', 'C09': ' Rounds 6-7: client view of every body (content coding, declared charset), gzip application, rendered route.', 'C10': ' Rounds 6-7: 4-tuple spelling, WSGI-wrapping middleware types.', 'C11': ' Rounds 6-7: failing operations retried, render-factory isolation, one error instance shared by applications (found and fixed), shared Redirector / meta peripherals.', 'C12': ' Rounds 6-7: cold-application pairs (fresh World per execution), GET/POST pair on one renderer, JSONP callbacks, cold-process executions (one fresh interpreter per schedule) for the debug error pages.', 'C13': ' Rounds 6-7: instance-level unique flag, reroutes behind stock middlewares, request counter past 2**32 / 2**64, route-less application.', 'C14': ' Rounds 6-7: add at index 0, future-dated file.', 'C15': ' Rounds 6-7: text-chunk bodies, missing Content-Type, read-only contexts (found and fixed), Redirector endpoint.', 'C16': ' Rounds 6-7: two cookies behind gzip, equal-not-identical expiry constants, returned-403 operation, sibling cookie applications.', 'C17': ' Rounds 6-7: non-Response responses, non-dict mappings, renderers behind GzipMiddleware.', 'C18': ' Rounds 6-7: non-identifier resource names (found and fixed), host context processors (found and fixed: secret in the JSON view), static-first mount, SCRIPT_NAME.', 'C19': ' Rounds 6-7: explicit code=, embedded application with its own StatsMiddleware.', 'C20': ' Rounds 6-7: long non-ASCII texts, empty and slash-only PATH_INFO.'}

# what the drivers gained after the table below was written (rounds 3-5); appended to the level text
EXTRA3 = {'C01': ' Round 8: every documented naming style of the extraction middlewares (string, generator, tuple).', 'C02': ' Round 8: the same naming styles, values checked.', 'C03': ' Round 8: stock middleware classes configured differently per level (one instance of a unique type, the outermost), RerouteWSGI endpoints behind tracing and gate middlewares.', 'C04': ' Round 8: render_error functions through 4-tuples and add(), NameError required.', 'C05': ' Round 8: malformed patterns through six further route spellings, redirect-mode end-to-end layer under a mount point.', 'C06': ' Round 8: failing add() attempts between insertions, a static application in front of later routes.', 'C07': ' Round 8: StaticFileRoute shape, absolute-form request targets with a foreign Host header.', 'C08': ' Round 8: a route behind stats + gzip + cache at every position, request counters past 2**32 / 2**64 for the built-in probes.', 'C09': ' Round 8: Content-Length against the bytes sent, errors constructed with mimetype= and served directly.', 'C10': ' Round 8: stock context processors with a defaulted name on offer only further out (56 configurations).', 'C11': ' Round 8: all pairs of registering methods on two Cline applications and the module-level default application.', 'C12': ' Round 8: two gzip kinds (one GzipMiddleware), two static kinds (one search path), the latter also on a cold application.', 'C13': ' Round 8: strict-mode applications whose routes consist of optional bindings only.', 'C14': ' Round 8: static applications behind HTTPCacheMiddleware.', 'C15': ' Round 8: route-level context processor under application-level subclasses, Vary on uncompressed variants.', 'C16': ' Round 8: default cookie names, revalidating clients (304) in the two-cookie histories.', 'C17': ' Round 8: renderers behind the stock context processors, form POST with a field named format.', 'C18': ' Round 8: positional cookie configuration, context defaults that cannot be copied.', 'C19': ' Round 8: stats pages as a browser asks for them.', 'C20': ' Round 8: request lines beyond latin-1 through the development server environ.'}

EXTRA4 = {'C01': ' Round 9: undeclared query parameters and form fields on every provider request.', 'C02': ' Round 9: URL bindings of every arity over three-request histories, consumers that scribble on what they get, request lines through the development server parsing.', 'C03': ' Round 9: stock middlewares between tracing middlewares under six exception types raised by endpoint or render.', 'C04': ' Round 9: cookie middleware named by keyword and positionally.', 'C05': ' Round 9: middlewares providing a binding name in each phase (refused, or the path wins).', 'C06': ' Round 9: prepared error objects shared by routes, tables of three and four routes, meta pages viewed before the requests.', 'C07': ' Round 9: routes preceded by their opposite (leaf / branch) twin.', 'C08': ' Round 9: form POST with a truncated body (found and fixed: contextual 500 page), embedded route against own route, cookie middleware with numeric expiry.', 'C09': ' Round 9: form route behind PostDataMiddleware with a truncated body.', 'C10': ' Round 9: every stock class at two levels under prefixes of one to three segments, repeated slashes inside the prefix.', 'C11': ' Round 9: one StaticFileRoute in two applications, one MakoRenderFactory shared by two applications.', 'C12': ' Round 9: request counter crossing 2**32 in every worker; two concurrent requests whose environs are built by one threaded server object of the vendored development server.', 'C13': ' Round 9: error handlers that answer through their own WSGI wrapper, installed five ways; the scenario application as raw connections through the development server request handler (status, body, HEAD on the wire).', 'C14': ' Round 9: search-path spellings (found and fixed: bytes / PathLike / one-shot iterable), named files through the development server parsing.', 'C15': ' Round 9: large forms, a long-lived pass (2**14 + 3 requests, scripted sampling positions).', 'C16': ' Round 9: two clients through one development-server object in all orders of four request shapes; an application built once and served by freshly forked worker processes (all issuer / reader pairs).', 'C17': ' Round 9: renderers behind cache + stats middlewares, empty JSONP callback.', 'C18': ' Round 9: unencodable page title and route text.', 'C19': ' Round 9: one route with numeric and exceptional outcomes, profiled failing requests.', 'C20': ' Round 9: ten failing start-up scripts through the real reloader (found and fixed: non-UTF-8 stderr); nine raw connection shapes through the development server request handler over an in-memory socket.'}

EXTRA = {
    'C01': '`context` at every chain position, embedded and strict all-optional layers, a plain sibling route after every '
           'configuration, parent/child middleware classes, a functools.wraps wrapper around an already inspected function.',
    'C02': 'layer LG (injectables named like every identifier harvested from the generated code - found the name capture '
           'fixed in 529e1c9), doubled-slash / absent-optional / percent-escape URL values, second binding of the same '
           'route into an application without the first one\'s resources, ghosts appended to the caller\'s lists after hand-over.',
    'C03': 'subclass types, duplicates in inner lists, a parameter/provides layer, sibling-route and catch-all-route traces.',
    'C04': 'two instances of a non-unique provider, double conflicts, render_error signatures at three installation sites.',
    'C05': 'digit 0, percent escapes, non-interned mode strings, values polluted after comparison, embedded placement.',
    'C06': 'mixed-case method declarations, a raw-method request type, typed bindings with a 5000-digit numeral, render '
           'functions on odd routes, special-character branch paths, caller\'s lists mutated after hand-over.',
    'C07': 'typed and dotted-literal shapes, routes pre-bound elsewhere, a mount point, dot segments, raw non-UTF-8 queries.',
    'C08': 'handlers combining the documented class attributes, a method-restricted sibling, slash redirects with raw '
           'query bytes, typed routes with unconvertible segments, an other-application letter in the histories.',
    'C09': 'lone surrogates, the content_type option, path/host carriers on the debug page, a route without rebound '
           'render_error, an unregistered status code, HEAD and OPTIONS.',
    'C10': 'three embedding styles (constructor, add(entry, 0), wrapper created before the routes), one application '
           'embedded twice, look-alike middleware types, and a direct comparison of every route\'s merged middleware list '
           'with ref/flatten.py (the flat application shares clastic\'s merge).',
    'C11': 'negative add() index (found the defect fixed in e3b8436), unusable WSGI wrappers as failing adds, a bystander '
           'application (non-breaking error before every probe round, serve() on the target).',
    'C12': 'per-request Host, an empty `*` binding mutated by the endpoint, Accept-negotiated errors and cookie '
           'login/logout kinds with a one-request history before every execution.',
    'C13': 'streaming JSON renderers, surrogate error text, a subclass wrapper type, a copying request type for reroutes.',
    'C14': 'time zones rotate over the shards, nested mount, fractional mtimes, name clashes across search paths.',
    'C15': 'extraction middlewares are observed by the endpoints, URL/form name clashes, malformed cookies, non-mapping contexts.',
    'C16': 'deterministic secret seam, time zones, logout, deprecated spelling, non-ASCII text secret with narrowed-charset '
           'forgeries, a Redirector-rendered route.',
    'C17': 'non-GET methods, declared non-UTF-8 charsets, hostile docstring, exec-defined endpoint, long non-ASCII text.',
    'C18': 'argument-less exceptions, a bare cookie-middleware subclass, provides given as frozenset / keys view / list.',
    'C19': 'Reservoir(data=...) start states under every random answer sequence, live handler swap and late add steps, a '
           'second application and a rerouting route, the caller\'s middleware list mutated after construction.',
    'C20': 'extension methods, relative monitored files, whitespace-only and undecodable error texts.',
}

# id -> (engine, technique, level text, level note, design ref)
CHECKS = {
    'C05': ('E1-product-enumerator',
            'bounded-exhaustive enumeration of (pattern, slash mode, path) triples on the real matcher against an '
            'independent reference matcher',
            'Every pattern of <=2 elements over 23 element kinds x 3 slash modes x every path string below a length '
            'bound over a 10-symbol alphabet, every <=3(4)-element pattern over 9 kinds x every segment sequence with 8 '
            'slash shapes, malformed-pattern variants and an end-to-end layer through the WSGI callable are enumerated '
            'completely and compared with ref/match.py; that is the strength the property needs because it quantifies '
            'over all patterns x paths and the matcher is a regex/conversion pipeline whose corner cases are '
            'combinatorial.',
            'Trusted: ref/match.py (three-valued literal validity), the bound (pattern length, path length, '
            'alphabet); literals with regex metacharacters are outside the property (O1).',
            'DESIGN.md section 5, C05'),
    'C06': ('E1-product-enumerator',
            'bounded-exhaustive enumeration of routing tables x requests on the real dispatcher against a reference '
            'dispatch loop',
            'All routing tables of <=2 routes over the full 120-entry route catalogue, 3-route (thorough: larger '
            '3-route and 4-route) tables over sub-catalogues, in the three slash modes, built by constructor list and '
            'by every order of add(entry, index) calls, each driven with the full 36-request catalogue; status, '
            'executed-endpoint sequence, answering route, Allow and Location are compared with ref/dispatch.py. '
            'Dispatch is a loop with interacting skip/break/continue conditions, so complete small tables are the '
            'right strength.',
            'Trusted: ref/dispatch.py and ref/match.py; behaviours outside the six catalogue behaviours are not explored.',
            'DESIGN.md section 5, C06'),
    'C07': ('E1-product-enumerator',
            'bounded-exhaustive enumeration of route/mode configurations x request catalogue on the real WSGI callable, '
            'each redirect followed one hop',
            'Complete product of 4 route shapes x branch/leaf x 3 slash modes x 4 ways of configuring the mode '
            '(application, route, inherited through embedding, not inherited) x 2 method sets, crossed with decoded '
            'segments containing URL-significant characters, 7 slash defects, 6 query strings and all 9 HTTP methods; '
            'every redirect is checked (origin, unquoted path, query pairs) and followed once. The property is a '
            'per-request input/output relation, so complete small catalogues are the right strength.',
            'Trusted: ref/dispatch.py, ref/match.py, urllib.parse; werkzeug strips leading repeated slashes before '
            'clastic sees the path (modelled).',
            'DESIGN.md section 5, C07'),
    'C01': ('E1-product-enumerator',
            'layered bounded-exhaustive enumeration of route configurations built with the real classes, accept/reject '
            'and request-time behaviour judged by a reference availability model',
            'Complete layers: one-name stack arithmetic for <=2 middlewares at application/route level with every subset of '
            'phase functions (quick: second middleware restricted to one phase function), long chains of 3-4 middlewares, '
            'six parameter roles x seven callable kinds at every chain position, two names with every source pair, and '
            'built-in names; each configuration constructed through Application(list)/add()/Route.bind() in rotation '
            'and, when accepted, driven with a hit, a 404 and a 405 under a re-raising handler. The iff in the property is '
            'over a combinatorial space, hence complete layers rather than examples.',
            'Trusted: ref/bind.py. Cyclic provides and positional-only parameters have relaxed expectations as the '
            'property allows. Not covered: >2 names, three middlewares each with several phase functions.',
            'DESIGN.md section 5, C01'),
    'C02': ('E1-product-enumerator',
            'same enumeration as C01 restricted to accepted configurations; identity comparison of every injected '
            'argument with its declared source, AST check of generated chains, cross-worker hash-seed diff',
            'For every accepted configuration of the C01 layers each (function, parameter) value observed on a hit, a 404 '
            'and a 405 is compared by identity with the sentinel of the unique source ref/bind.py computes; the same '
            'configurations are re-run behind routes that match the same path, bind the same names and are skipped '
            '(method mismatch / non-breaking error); generated chain sources are parsed and checked structurally; a '
            'common sub-sample is traced by every worker under a different PYTHONHASHSEED and must agree.',
            'Trusted: ref/bind.py, sentinel identity. URL values are compared by equality.',
            'DESIGN.md section 5, C02'),
    'C03': ('E1-product-enumerator',
            'bounded-exhaustive enumeration of middleware stacks x fault scripts on the real chain, event traces '
            'compared with a symbolic onion simulation',
            'All stacks of <=3 (thorough 4) middlewares over three placement levels and four type kinds (merge/dedupe '
            'structure, incl. the same object placed twice), all subsets of phase functions for <=2 (thorough 3) '
            'middlewares crossed with one of five fault scripts at every chain position and three endpoint result '
            'kinds; the enter/leave/next-returned/next-raised sequence with object identities must equal '
            'ref/onion.py. Order and propagation are control-flow properties of generated code, so every small stack '
            'is executed rather than sampled.',
            'Trusted: ref/onion.py, ref/bind.merged_stack. Duplicates of a unique type inside one list are not '
            'generated (pinned by the test suite, outside the merge rule).',
            'DESIGN.md section 5, C03'),
    'C04': ('E1-product-enumerator',
            'complete source-pair x name x base-configuration matrix constructed with the real classes, verdict from '
            'reference conflict rules',
            'Every pair of sources (URL, application/route/outer resources, built-ins, each phase provides of each '
            'middleware at each level) for the name a and every reserved name, plus every misplacement of next/context, '
            'injected into 22 valid base configurations (flat and embedded), each built through Application(list), '
            'add() and Route.bind(), once cold and once after a valid configuration using the very same middleware '
            'classes. The rule set is a finite matrix, so it is enumerated completely.',
            'Trusted: ref/bind.py conflict rules. Resource/resource pairs across levels are precedence (C10), not '
            'conflicts.',
            'DESIGN.md section 5, C04'),
    'C08': ('E1-product-enumerator+E2-history-bfs',
            'bounded-exhaustive product of failing behaviours x chain positions x error handlers x Accept on the real '
            'application, plus explicit-state exploration of all request histories up to depth 3/4 against a fresh-'
            'application differential oracle',
            'About 390 behaviours (non-Response returns, 18 exception types x 6 message kinds incl. huge, control, lone '
            'surrogate, str/repr that raise; every HTTPException class raised/returned, breaking/non-breaking) at each '
            'of 20 chain positions on a route with and without renderer under 5 handler kinds and 4 Accept headers; '
            'every history of <=3 (thorough 4) requests over an 11-letter alphabet followed by a 7-request probe set '
            'compared with a fresh application. Exhaustive small products are needed because the failure modes are '
            'combinations (message x handler x position).',
            'Trusted: the small result model in props/c08.py (endpoint-side values go to render, others are final).',
            'DESIGN.md section 5, C08'),
    'C09': ('E1-product-enumerator',
            'bounded-exhaustive product of error classes x hostile field payloads x Accept headers x handlers; RFC '
            'negotiation reference, parser-based and differential-structure oracles',
            'Every HTTPException class (raised and returned) with default fields, overridden code and each of 11 hostile '
            'payloads in detail/message/error_type, uncaught exceptions whose message, local, query, header and cookie '
            'carry the payloads, and 404s for hostile paths, under 26 Accept headers and both handlers; status, '
            'negotiated format (ref/negotiate.py), JSON/XML parse + field equality, HTML tag/attribute skeleton equal '
            'to the neutral-payload rendering. Escaping is a for-all-strings claim; the payload catalogue x carrier '
            'product is the bounded slice of it.',
            'Trusted: ref/negotiate.py, html.parser, json, xml.etree.',
            'DESIGN.md section 5, C09'),
    'C10': ('E1-product-enumerator',
            'bounded-exhaustive enumeration of application trees; differential comparison of the nested real '
            'application with a flat real application built from an independent flattening',
            'Chains of depth 2 and 3 over prefixes, middleware lists (unique/non-unique, shared/unshared types), '
            'resources shared with the outermost level, three slash modes, per-level tagging error handlers '
            '(plain/contextual), render factories, inherit_slashes and rebind_render flags, enumerated as complete '
            'products per layer (thorough: the full depth-2 cross product); both applications answer the same request '
            'catalogue under every prefix and outside it and must agree on status, body, Location, Content-Type, '
            'middleware trace and rendering error handler.',
            'Trusted: ref/flatten.py. Names defined only by two inner levels are excluded, as in the property.',
            'DESIGN.md section 5, C10'),
    'C11': ('E2-history-bfs',
            'explicit-state breadth-first search over operation histories replayed on fresh real objects, invariant '
            '(model routing table + probe answers + structural digest) checked in every state',
            'All histories up to depth 4 (thorough 5, three live applications) over {construct application (4 kinds), '
            'failing constructor, add Route/tuple/GET route/SubApplication at index None/0/1, five kinds of failing '
            'add}; distinct model states are enumerated first, every enabled operation is then executed from each on '
            'fresh objects; after every transition every live application must show the model routing table, answer '
            '16 probes as ref/dispatch.py predicts (marker, middlewares run, resource value), shared Route objects '
            'must equal their snapshot, and a failing operation must raise and change nothing.',
            'Trusted: the harness model of add()/embedding and ref/dispatch.py; merging by model state is justified by '
            'asserting, in every state, that the structure of the real objects is a function of the model state.',
            'DESIGN.md section 5, C11'),
    'C12': ('E3-thread-scheduler',
            'stateless model checking of real threads: all schedules within a preemption bound at bytecode '
            'granularity (sys.monitoring), each response compared with the sequential response',
            'All 66 unordered pairs of 11 request kinds (incl. a second Application in the process and a path with a GET-only and a POST-only route) on two real threads under every schedule with <=1 preemption '
            '(thorough: <=2), five triples with <=1 preemption and two quadruples with all completion orders; '
            'scheduling points are all non-thread-local bytecode instructions of clastic, its generated chains and '
            'the harness bodies; every thread must receive exactly the response its request gets alone (unique token '
            'echoed through request object, URL parameters, provided values, dispatch state, redirect Location, error '
            'text, compared with a fresh application\'s sequential answer) and request ids and guids must be unique within the process. Interference needs a specific interleaving, which is '
            'exactly what bounded exhaustive scheduling enumerates.',
            'Trusted: the scheduler (replay divergence is a hard error; one schedule is replayed twice per run); '
            'werkzeug/stdlib execute atomically between points; PYTHONHASHSEED=0.',
            'DESIGN.md section 5, C12'),
    'C19': ('E2-history-bfs+E4-fault-enumerator',
            'explicit-state BFS over the real Reservoir with every answer of the random source enumerated; exhaustive '
            'request/read/reset histories against a model counter',
            '(a) all sequences of <=7 (thorough 9) add/resize/iterate operations on reservoirs of capacity 1-3 with '
            'resizes to 1-4, each sampling add branched over every index the random source can return (the module-'
            'level random seam is scripted), invariants (size <= requested capacity, exact total, no exception, only '
            'added values, iteration == data) in every state; (b) every history of <=4 (thorough 5) steps over 9 '
            'request outcomes (200, 302, raised/returned 4xx, uncaught, non-breaking fall-through, catch-all, 404, '
            '405) + stats read + reset, the stats report compared with a model counter after every read. Enumerating '
            'the random answers replaces "many random seeds" by a complete argument.',
            'Trusted: the reservoir object is exactly (_cap, _data, _total_count) (asserted); the stats report is '
            'keyed by pattern (O9).',
            'DESIGN.md section 5, C19'),
    'C16': ('E2-history-bfs',
            'explicit-state BFS over client/clock/tamper histories against the real middleware; semantic MAC '
            'verification as reference for tampered cookies, model dict for untampered ones',
            'All histories up to depth 4 (thorough 5) over {set (5 JSON values, 3 keys), delete, read, clear} for two '
            'clients, clock advances to and past the expiry, and 21 tampering steps (byte flips in MAC/key/payload, '
            'unused-low-bit flip that stays valid, truncate, extend, swap MAC/payload between clients, re-sign with '
            'another key, cookie of another default-constructed middleware instance, malformed base64, non-ASCII, '
            'missing separators, empty, quotes) in 12 configurations (expiry session/never/numeric x custom names x '
            'explicit/default secret); in every transition the cookie object presented to the endpoint and the status '
            'are compared. State = (cookies, clean flags, clock, models); the server is stateless.',
            'Trusted: ref/cookie.py (stdlib hmac/hashlib/base64/json); the virtual clock seams.',
            'DESIGN.md section 5, C16'),
    'C14': ('E1-product-enumerator+E4-fault-enumerator',
            'bounded-exhaustive enumeration of request paths over a segment alphabet against an in-memory model of a '
            'generated tree; deviation-bounded injection of filesystem answers at every call position',
            'Every path of <=3 segments (4 for three configurations; thorough 4/5) over a 19-symbol segment alphabet '
            '(existing names, ., .., empty, ..., sibling and parent names incl. one sharing the root\'s prefix, pieces of '
            'the absolute path, encoded-looking names) under 20 configurations (prefix x slash mode x one/two search paths, also listed in non-alphabetical order, an overlapping fallback static application behind), judged by the model (exact bytes, length, '
            'Last-Modified, type; escapes refused; secrets never disclosed; plain paths served); conditional requests; '
            'and for 11 request kinds every single (thorough: every pair of) filesystem call position x '
            '{ENOENT, EACCES, EIO, EISDIR, isfile->False}.',
            'Trusted: the model of the generated tree, posixpath.normpath, mimetypes; seams on '
            'clastic.static.isfile/open/os and the peek read.',
            'DESIGN.md section 5, C14'),
    'C15': ('E1-product-enumerator',
            'bounded-exhaustive enumeration of middleware stacks x request catalogue; differential comparison with '
            'the same application without the stack',
            'All singles, ordered pairs and ordered triples (thorough: quadruples) of the 11 built-in middleware configurations (default configurations plus a context processor whose defaults collide with falsy endpoint values) on a scenario application producing every response kind (Response with 7 body '
            'kinds, rendered context, streamed, endpoint redirect, slash redirect, raised/returned 4xx, raised 5xx, '
            'non-breaking fall-through, uncaught exception, unknown URL, wrong method, HEAD, POST form) x 10 '
            'Accept-Encoding values x 3 query strings; status, decoded body and Location must equal the baseline; '
            'gzip: lossless, Content-Length == bytes sent, Vary, never sent to a client that refuses it.',
            'Trusted: the baseline application (differential oracle), gzip module, a small Accept-Encoding reading.',
            'DESIGN.md section 5, C15'),
    'C17': ('E1-product-enumerator',
            'complete expansion of a value grammar to a nesting bound x renderers x format x Accept on the real '
            'renderers; statement-derived oracle plus fresh-renderer differential',
            'About 300 values (24 atoms incl. JSON-like/HTML-like/non-ASCII text, bytes, numbers, None, datetime, '
            'to_dict/asdict/isoformat objects, plain objects, generators, a Response; dict/list/tuple/set/frozenset '
            'containers to depth 3) x {render_basic with 3 formats x 8 Accept headers, render_json, render_json_dev, '
            'streaming JSON, JSONP with/without callback}; status 200, content type by value kind, JSON parses back to '
            'the normalised value, dev-mode reprs, JSONP wrapping, HTML tables for tabular shapes only, and every HTML '
            'response of the shared render_basic equals that of a freshly constructed renderer.',
            'Trusted: the normalisation function norm() and ref/negotiate.py; non-tabular HTML is outside (O10).',
            'DESIGN.md section 5, C17'),
    'C20': ('E1-product-enumerator',
            'complete enumeration of error-text families x monitored-file lists x requests on the real failsafe '
            'application; parser-based and differential-structure oracles',
            'Real tracebacks (10 exception types x depths 1-3 x 6 message kinds, SyntaxError reports, chained '
            'exceptions), every line-boundary prefix and suffix of them, concatenations, every string of length <=3 '
            '(thorough 4) over a 12-symbol markup/template alphabet, fixed hostile strings and non-text inputs (None, '
            'bytes, invalid UTF-8, numbers, lists) x 5 monitored-file lists x 6 requests; create_app must return, '
            'every page is a 200 text/html whose tag skeleton (outside the error heading, whose two legitimate '
            'shapes are checked separately) equals the neutral page, the text and file names appear verbatim after '
            'parsing, and standard tracebacks have type and message outside the raw block.',
            'Trusted: html.parser; the definition of "standard traceback"; lone surrogates excluded.',
            'DESIGN.md section 5, C20'),
    'C18': ('E1-product-enumerator+E4-fault-enumerator',
            'bounded-exhaustive product of host applications x mounts x views on the real MetaApplication; sentinel '
            'search; injected section failures at every peripheral x phase x exception type',
            'Resource-name subsets (names with secret as prefix/infix/suffix, a long name, non-secret names) x six value '
            'kinds (str, bytes, int, nested containers, object whose repr holds the secret, long string) x middleware '
            'sets (none, SignedCookie with a known key, custom middleware + cookie) x four mounts incl. two levels of '
            'embedding x HTML/JSON view; each page must be 200, hide secret-named values and the cookie key, show '
            'the redaction marker and the other values; each of 9 peripherals made to raise each of 9 exception types '
            'in get_context / render, and resources whose repr raises: page still 200 with the failure reported inline.',
            'Trusted: alphanumeric sentinels (raw, HTML-, JSON-, repr-escaped forms coincide).',
            'DESIGN.md section 5, C18'),
    'C13': ('E1-product-enumerator',
            'bounded-exhaustive enumeration of response kinds x methods x header sets under wsgiref.validate with '
            'open-file tracking; all wrapper stacks x embedding x construction style; all reroute kinds x targets',
            '(a) five application variants (plain, gzip, cache, debug, gzip+cache) x 15 paths (Response, streamed, '
            'rendered, static file route/application incl. missing and escaping paths, slash redirect, 404/405/500, '
            'meta HTML/JSON) x GET/HEAD/POST/OPTIONS x 7 header sets incl. conditional requests: validator clean, '
            'start_response once, no HEAD body, every file opened through clastic.static closed after close(); (b) '
            'every list of <=3 (thorough 4) wsgi_wrapper middlewares over {U1, U2, non-unique V} at the embedding and '
            'embedded level, with routes given to the constructor or added later, plus sibling sub-applications and '
            'route-level middlewares with own instances: observed order vs the merge rule; (c) RerouteWSGI raised / as '
            'endpoint / raised in a middleware x 4 target behaviours x GET/POST/HEAD: environ entries intact, '
            'status/headers/body verbatim.',
            'Trusted: wsgiref.validate.validator; the seam on clastic.static.open.',
            'DESIGN.md section 5, C13'),
}

NOT_YET = 'check not built yet in this revision of /verif (planned: bounded exhaustive exploration, see DESIGN.md section 5)'


def main():
    checks = []
    for cid in ALL:
        if cid not in CHECKS:
            continue
        engine, tech, text, note, ref = CHECKS[cid]
        if cid in EXTRA:
            text = text + ' Added by the later rounds of seeded changes (DESIGN.md 9.5): ' + EXTRA[cid] + EXTRA2.get(cid, '') + EXTRA3.get(cid, '') + EXTRA4.get(cid, '')
        checks.append({
            'property_id': cid,
            'quick_cmd': '/venv/bin/python check.py %s --tier quick' % cid,
            'thorough_cmd': '/venv/bin/python check.py %s --tier thorough' % cid,
            'evidence_file': '/verif/evidence/%s.json' % cid,
            'replay_cmd_template': '/venv/bin/python check.py %s --replay {path}' % cid,
            'engine': engine,
            'level_claimed': {'category': 'model_checking', 'text': text, 'design_ref': ref},
            'level_note': note,
            'technique': tech,
        })
    man = {
        'version': 1,
        'setup_cmd': '/venv/bin/python tools/selftest.py',
        'hooks': {
            'guard': 'CLASTIC_VERIF',
            'enable': 'no source hooks are needed: the checks patch module-level seams of clastic from outside '
                      '(CLASTIC_VERIF=1 is exported by check.py for completeness)',
            'baseline_off_cmd': 'cd /repo && env -u CLASTIC_VERIF /venv/bin/python -m pytest -ra -q -p no:cacheprovider --timeout=900',
            'source_commits': [],
            'add_only': True,
        },
        'engines': [
            {'name': 'E1-product-enumerator', 'path': 'mc/common.py, check.py, mc/worker.py',
             'serves_properties': [c for c in ALL if c in CHECKS and CHECKS[c][0].startswith('E1')],
             'kind_free_text': 'mixed-radix bounded-exhaustive enumeration of configurations/inputs, sharded over '
                               'worker processes, executed on the real clastic code, judged by reference models in ref/'},
            {'name': 'E2-history-bfs', 'path': 'mc/bfs.py',
             'serves_properties': [c for c in ALL if c in CHECKS and CHECKS[c][0].startswith('E2')],
             'kind_free_text': 'explicit-state breadth-first search over operation histories replayed on fresh real objects'},
            {'name': 'E3-thread-scheduler', 'path': 'mc/sched.py',
             'serves_properties': [c for c in ALL if c in CHECKS and CHECKS[c][0].startswith('E3')],
             'kind_free_text': 'stateless preemption-bounded exploration of real threads at bytecode granularity (sys.monitoring)'},
            {'name': 'E4-fault-enumerator', 'path': 'mc/env.py',
             'serves_properties': [c for c in ALL if c in CHECKS and CHECKS[c][0].startswith('E4')],
             'kind_free_text': 'deviation-bounded enumeration of environment answers / injected OS errors at every call position'},
        ],
        'checks': checks,
        'notes': 'All checks are bounded exhaustive explorations of the real implementation (model checking in the '
                 'stateless / explicit-state sense); see DESIGN.md. Known genuine defects are in known_findings.json.',
        'not_applicable': [{'property_id': c, 'reason': NOT_YET} for c in ALL if c not in CHECKS],
    }
    with open(os.path.join(HERE, 'MANIFEST.json'), 'w') as f:
        json.dump(man, f, indent=1)
        f.write('\n')


if __name__ == '__main__':
    main()
