#!/usr/bin/env python3
"""Print the DESIGN.md 9.5 table rows for the seeds whose id matches a suffix pattern (e.g. '-v')."""
import glob
import json
import os
import sys

HERE = os.path.dirname(os.path.dirname(os.path.abspath(__file__)))


def clip(s, n):
    s = ' '.join(str(s).split()).replace('|', '/')
    return s if len(s) <= n else s[:n] + '...'


def rows(pattern):
    out = []
    for d in sorted(glob.glob(os.path.join(HERE, 'seeded', '*'))):
        sid = os.path.basename(d)
        if pattern not in sid:
            continue
        m = json.load(open(os.path.join(d, 'meta.json')))
        res = '; '.join('%s: %s' % (k, v.lower()) for k, v in sorted(m.get('check_results', {}).items()))
        out.append('| %s | %s | %s | %s |' % (sid, clip(m.get('summary', ''), 150), clip(m.get('needs', ''), 120), res))
    return out


if __name__ == '__main__':
    print('\n'.join(rows(sys.argv[1] if len(sys.argv) > 1 else '-')))
