#!/venv/bin/python
"""setup_cmd: nothing is compiled; this only checks that the framework is usable offline:
the interpreter, clastic importable from /repo, and that no reference model imports clastic."""
import ast
import os
import sys

HERE = os.path.dirname(os.path.dirname(os.path.abspath(__file__)))
sys.path.insert(0, HERE)
from mc import common  # noqa: E402

bad = []
for fn in sorted(os.listdir(os.path.join(HERE, 'ref'))):
    if not fn.endswith('.py'):
        continue
    tree = ast.parse(open(os.path.join(HERE, 'ref', fn)).read())
    for node in ast.walk(tree):
        names = []
        if isinstance(node, ast.Import):
            names = [a.name for a in node.names]
        elif isinstance(node, ast.ImportFrom):
            names = [node.module or '']
        for n in names:
            if n.split('.')[0] in ('clastic', 'werkzeug', 'boltons'):
                bad.append('%s imports %s' % (fn, n))
if bad:
    print('reference models must not import the code under test: %r' % bad)
    sys.exit(1)
c = common.setup_repo()
print('ok: clastic from %s, python %s' % (os.path.dirname(c.__file__), sys.version.split()[0]))
