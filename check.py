#!/venv/bin/python
# -*- coding: utf-8 -*-
"""Entry point of the verification machinery.

    check.py <Cxx> [--tier quick|thorough] [--replay <file>] [--jobs N]

Exit status: 0 property held on everything explored (known findings are
printed as KNOWN-FINDING lines), 1 violation (VIOLATION line with a replay
file), 2 internal error of the machinery (never a verdict).
"""
import argparse
import fnmatch
import hashlib
import importlib
import json
import os
import shutil
import subprocess
import sys
import tempfile
import time

HERE = os.path.dirname(os.path.abspath(__file__))
sys.path.insert(0, HERE)
from mc import common  # noqa: E402

PY = sys.executable or '/venv/bin/python'


def load_findings():
    path = os.path.join(HERE, 'known_findings.json')
    if not os.path.exists(path):
        return []
    with open(path) as f:
        return json.load(f).get('findings', [])


def run_workers(modname, tier, nshards, jobs, budget_s, hashseeds):
    work = tempfile.mkdtemp(prefix='clastic-verif-')
    deadline = time.time() + budget_s
    env_base = dict(os.environ)
    env_base['VERIF_DEADLINE'] = repr(deadline)
    env_base['PYTHONDONTWRITEBYTECODE'] = '1'
    env_base[common.GUARD] = '1'
    env_base['PYTHONWARNINGS'] = 'ignore'
    pending = list(range(nshards))
    running = {}
    results = [None] * nshards
    errors = []
    try:
        while pending or running:
            while pending and len(running) < jobs:
                i = pending.pop(0)
                out = os.path.join(work, 'shard%03d.json' % i)
                env = dict(env_base)
                env['PYTHONHASHSEED'] = str(hashseeds[i % len(hashseeds)])
                log = open(os.path.join(work, 'shard%03d.log' % i), 'w')
                p = subprocess.Popen([PY, os.path.join(HERE, 'mc', 'worker.py'), modname, tier,
                                      str(i), str(nshards), out], env=env, cwd=HERE,
                                     stdout=log, stderr=subprocess.STDOUT)
                running[i] = (p, out, log)
            time.sleep(0.02)
            for i in list(running):
                p, out, log = running[i]
                if p.poll() is None:
                    if time.time() > deadline + 120:
                        p.kill()
                        errors.append('shard %d did not honour the deadline; killed' % i)
                        log.close()
                        del running[i]
                    continue
                log.close()
                del running[i]
                if not os.path.exists(out):
                    with open(log.name) as f:
                        tail = f.read()[-2000:]
                    errors.append('shard %d died (rc=%s): %s' % (i, p.returncode, tail))
                    continue
                with open(out) as f:
                    st = json.load(f)
                if not st['ok']:
                    errors.append('shard %d raised:\n%s' % (i, st['error']))
                else:
                    results[i] = st['result']
    finally:
        for i, (p, out, log) in running.items():
            try:
                p.kill()
            except Exception:
                pass
        shutil.rmtree(work, ignore_errors=True)
    return results, errors


def classify(prop, violations, findings):
    """Split violations into (known: {finding-id: [v]}, new: [v])."""
    known, new = {}, []
    active = [f for f in findings if f.get('property') == prop and f.get('status') == 'known']
    for v in violations:
        hit = None
        for f in active:
            pats = f['sig'] if isinstance(f['sig'], list) else [f['sig']]
            if any(fnmatch.fnmatchcase(v['sig'], p) for p in pats):
                hit = f
                break
        if hit is None:
            new.append(v)
        else:
            known.setdefault(hit['id'], []).append(v)
    return known, new


def write_replay(prop, v, tier):
    d = os.path.join(HERE, 'replays')
    os.makedirs(d, exist_ok=True)
    h = hashlib.sha1(json.dumps([v['sig'], v['case']], sort_keys=True, default=repr).encode()).hexdigest()[:10]
    path = os.path.join(d, '%s-%s.json' % (prop, h))
    with open(path, 'w') as f:
        json.dump({'property': prop, 'sig': v['sig'], 'desc': v['desc'], 'case': v['case'],
                   'tier': tier, 'replay_cmd': './check.py %s --replay %s' % (prop, path)},
                  f, indent=1, default=repr, sort_keys=True)
    return path


def main():
    ap = argparse.ArgumentParser()
    ap.add_argument('prop')
    ap.add_argument('--tier', default=os.environ.get('VERIF_TIER') or 'quick', choices=['quick', 'thorough'])
    ap.add_argument('--replay')
    ap.add_argument('--jobs', type=int, default=int(os.environ.get('VERIF_JOBS') or 0) or (os.cpu_count() or 4))
    ap.add_argument('--no-evidence', action='store_true')
    args = ap.parse_args()
    prop = args.prop.upper()
    modname = prop.lower()
    t0 = time.time()
    try:
        common.setup_repo()
        mod = importlib.import_module('props.' + modname)
    except common.InternalError as e:
        print('INTERNAL-ERROR %s' % e)
        return 2

    if args.replay:
        with open(args.replay) as f:
            rec = json.load(f)
        ok, text = mod.replay(rec['case'])
        print(text)
        if ok:
            print('replay: property holds on this element')
            return 0
        print('VIOLATION property=%s replay=%s' % (prop, os.path.abspath(args.replay)))
        return 1

    seed = common.seed()
    nshards = mod.nshards(args.tier) if hasattr(mod, 'nshards') else 16
    budget = mod.BUDGET[args.tier]
    hs = getattr(mod, 'HASHSEEDS', None)
    if hs is None:
        hs = [(seed * 31 + k * 7 + 1) % 4096 for k in range(nshards)]
    elif callable(hs):
        hs = hs(args.tier, seed)
    results, errors = run_workers(modname, args.tier, nshards, args.jobs, budget, hs)
    if errors:
        print('INTERNAL-ERROR property=%s %d worker problem(s)' % (prop, len(errors)))
        for e in errors[:3]:
            print(e)
        return 2
    merged = common.merge(results)
    fin = {}
    try:
        fin = mod.finish(args.tier, merged, results) or {}
    except common.InternalError as e:
        print('INTERNAL-ERROR property=%s %s' % (prop, e))
        return 2
    findings = load_findings()
    known, new = classify(prop, merged['violations'], findings)
    # signatures whose violations were all dropped by the per-shard cap are still in sig_counts
    kept = set(v['sig'] for v in merged['violations'])
    for s in merged['sig_counts']:
        if s not in kept:
            print('INTERNAL-ERROR property=%s violation signature %s lost by capping' % (prop, s))
            return 2
    rc = 0
    for fid, vs in sorted(known.items()):
        f = [x for x in findings if x['id'] == fid][0]
        n = sum(merged['sig_counts'].get(s, 0) for s in set(v['sig'] for v in vs))
        print('KNOWN-FINDING: property=%s %s [%s; %d occurrence(s) in this run, e.g. %s]'
              % (prop, f['what'], fid, n, json.dumps(vs[0]['case'], default=repr)[:300]))
    seen_sig = set()
    nprinted = 0
    for v in new:
        if v['sig'] in seen_sig:
            continue
        seen_sig.add(v['sig'])
        rc = 1
        if nprinted < 12:
            path = write_replay(prop, v, args.tier)
            print('VIOLATION property=%s replay=%s' % (prop, path))
            print('  sig=%s (%d occurrence(s)) %s' % (v['sig'], merged['sig_counts'].get(v['sig'], 1), v['desc'][:600]))
            nprinted += 1
    cap_hit = bool(merged['extra'].get('cap_hit'))
    space = fin.get('space_size')
    exhaustive = (not cap_hit) and (space is None or space == merged['evaluated'])
    if space is not None and not cap_hit and space != merged['evaluated']:
        print('INTERNAL-ERROR property=%s shards evaluated %d elements, space has %d'
              % (prop, merged['evaluated'], space))
        return 2
    wall = time.time() - t0
    cov = {
        'states': merged['evaluated'],
        'transitions': merged['transitions'],
        'traces_validated_against_impl': merged['validated'],
        'samples': merged['samples'][:8] or ['(none)'],
        'evaluations': merged['evaluated'],
        'distinct_nontrivial': fin.get('distinct_nontrivial', len(merged['outcomes'])),
        'rule': getattr(mod, 'RULE', ''),
        'exhaustive': exhaustive,
        'cap_hit': cap_hit,
        'distinct_outcomes': len(merged['outcomes']),
        'outcomes': dict(sorted(merged['outcomes'].items(), key=lambda kv: -kv[1])[:60]),
        'bounds': fin.get('bounds', {}),
        'known_findings_seen': sorted(known),
        'violation_signatures': dict(sorted(merged['sig_counts'].items())),
        'workers': nshards,
        'hashseeds': sorted(set(hs))[:16],
    }
    for k, v in fin.get('coverage', {}).items():
        cov[k] = v
    ev = {'property_id': prop, 'tier': args.tier, 'seed': seed, 'level': getattr(mod, 'LEVEL', 'model_checking'),
          'coverage': cov, 'assumptions': list(getattr(mod, 'ASSUMPTIONS', [])), 'wall_s': round(wall, 2),
          'violations': len(seen_sig)}
    if not args.no_evidence:
        os.makedirs(os.path.join(HERE, 'evidence'), exist_ok=True)
        p = os.path.join(HERE, 'evidence', prop + '.json')
        with open(p + '.tmp', 'w') as f:
            json.dump(ev, f, indent=1, default=repr, sort_keys=True)
        os.rename(p + '.tmp', p)
    print('%s tier=%s seed=%d: %d elements, %d transitions, %d comparisons, %d outcome classes, '
          'exhaustive=%s, new-violations=%d, known=%d, %.1fs'
          % (prop, args.tier, seed, merged['evaluated'], merged['transitions'], merged['validated'],
             len(merged['outcomes']), exhaustive, len(seen_sig), len(known), wall))
    return rc


if __name__ == '__main__':
    sys.exit(main())
